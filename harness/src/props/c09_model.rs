//! C09 — independent document model: value enum `V` (the replay format), conversion to / from tantivy's
//! `OwnedValue`, the fixed schema used by all C09 sub-checks and the proptest strategies.
//!
//! Nothing here uses tantivy's (de)serialisation: the model keeps what was *added* and the oracle compares it
//! with what comes *back*, value by value, with exact numeric types (f64 by bit pattern).
use std::collections::BTreeMap;
use std::net::Ipv6Addr;

use proptest::prelude::*;
use serde::{Deserialize, Serialize};
use tantivy::schema::document::{DeserializeError, DocumentDeserialize, DocumentDeserializer};
use tantivy::schema::*;
use tantivy::tokenizer::{PreTokenizedString, Token};
use tantivy::{DateTime, Document};

use crate::engine::Failure;

/// One token of a pre-tokenised text (all five fields of `tantivy::tokenizer::Token`).
#[derive(Clone, Debug, Serialize, Deserialize, PartialEq, Eq)]
pub struct Tok {
    pub from: u64,
    pub to: u64,
    pub pos: u64,
    pub text: String,
    pub plen: u64,
}

/// Model value.  `Big*` variants are compact descriptions of large payloads (expanded deterministically).
#[derive(Clone, Debug, Serialize, Deserialize, PartialEq, Eq)]
pub enum V {
    Null,
    Str(String),
    /// large text: kind 0 = one repeated char (very compressible), 1 = pseudo-random ascii words,
    /// 2 = pseudo-random multi-byte unicode; `len` = approximate length in bytes
    Big { kind: u8, seed: u8, len: u32 },
    Pre { text: String, toks: Vec<Tok> },
    U64(u64),
    I64(i64),
    /// f64 by bit pattern (NaN payloads, -0.0 are data)
    F64(u64),
    Bool(bool),
    /// nanoseconds
    Date(i64),
    /// facet path segments (non-empty, no NUL); empty list = root
    Facet(Vec<String>),
    Bytes(Vec<u8>),
    /// incompressible pseudo-random bytes
    BigB { seed: u8, len: u32 },
    /// ipv6 as (high, low) halves
    Ip(u64, u64),
    Arr(Vec<V>),
    Obj(Vec<(String, V)>),
}

fn lcg(x: &mut u64) -> u64 {
    *x = x.wrapping_mul(6364136223846793005).wrapping_add(1442695040888963407);
    *x >> 33
}

pub fn expand_big(kind: u8, seed: u8, len: u32) -> String {
    let len = len as usize;
    let mut s = String::with_capacity(len + 8);
    let mut x = seed as u64 * 7919 + 17;
    match kind % 3 {
        0 => {
            let c = (b'a' + seed % 26) as char;
            for _ in 0..len {
                s.push(c);
            }
        }
        1 => {
            while s.len() < len {
                let wl = 1 + lcg(&mut x) % 9;
                for _ in 0..wl {
                    s.push((b'a' + (lcg(&mut x) % 26) as u8) as char);
                }
                s.push(' ');
            }
        }
        _ => {
            const ALPH: [char; 12] = ['é', '中', '😀', 'ß', 'a', ' ', 'Ж', '\u{301}', 'z', '한', '\u{200d}', '𝄞'];
            while s.len() < len {
                s.push(ALPH[(lcg(&mut x) % 12) as usize]);
            }
        }
    }
    s
}
pub fn expand_bigb(seed: u8, len: u32) -> Vec<u8> {
    let mut x = seed as u64 * 104729 + 3;
    (0..len).map(|_| (lcg(&mut x) >> 11) as u8).collect()
}

impl V {
    /// normal form used for comparison: Big* expanded
    pub fn norm(&self) -> V {
        match self {
            V::Big { kind, seed, len } => V::Str(expand_big(*kind, *seed, *len)),
            V::BigB { seed, len } => V::Bytes(expand_bigb(*seed, *len)),
            V::Arr(a) => V::Arr(a.iter().map(|x| x.norm()).collect()),
            V::Obj(o) => V::Obj(o.iter().map(|(k, x)| (k.clone(), x.norm())).collect()),
            other => other.clone(),
        }
    }
    /// what the store must return for a value added at the *top level* of a document: a pre-tokenised text is
    /// stored as its text (the tokens are indexing input, `BinaryDocumentSerializer::serialize_doc`); nested
    /// values come back unchanged.
    pub fn expected_top(&self) -> V {
        match self {
            V::Pre { text, .. } => V::Str(text.clone()),
            other if via_serde(other) => norm_serde(other).norm(),
            other => other.norm(),
        }
    }
    /// canonical form under which two values are "the same value": object entries ordered by key (a JSON object
    /// is an unordered map; the store keeps insertion order today, the property does not demand it) and every
    /// NaN mapped to one bit pattern (all other floats are compared by bits, so -0.0 != 0.0)
    pub fn canon(self) -> V {
        match self {
            V::F64(bits) if f64::from_bits(bits).is_nan() => V::F64(f64::NAN.to_bits()),
            V::Arr(a) => V::Arr(a.into_iter().map(|x| x.canon()).collect()),
            V::Obj(o) => {
                let mut o: Vec<(String, V)> = o.into_iter().map(|(k, x)| (k, x.canon())).collect();
                o.sort_by(|a, b| a.0.cmp(&b.0));
                V::Obj(o)
            }
            other => other,
        }
    }
    pub fn depth(&self) -> usize {
        match self {
            V::Arr(a) => 1 + a.iter().map(|x| x.depth()).max().unwrap_or(0),
            V::Obj(o) => 1 + o.iter().map(|(_, x)| x.depth()).max().unwrap_or(0),
            _ => 0,
        }
    }
    /// rough serialised size in bytes (labels only)
    pub fn approx_size(&self) -> usize {
        match self {
            V::Null | V::Bool(_) => 2,
            V::Str(s) => s.len() + 3,
            V::Big { len, .. } | V::BigB { len, .. } => *len as usize + 4,
            V::Pre { text, toks } => text.len() + 3 + toks.iter().map(|t| t.text.len() + 60).sum::<usize>(),
            V::U64(_) | V::I64(_) | V::F64(_) | V::Date(_) => 9,
            V::Facet(p) => p.iter().map(|s| s.len() + 1).sum::<usize>() + 2,
            V::Bytes(b) => b.len() + 3,
            V::Ip(..) => 17,
            V::Arr(a) => 2 + a.iter().map(|x| x.approx_size()).sum::<usize>(),
            V::Obj(o) => 2 + o.iter().map(|(k, x)| k.len() + 2 + x.approx_size()).sum::<usize>(),
        }
    }
    pub fn kind_name(&self) -> &'static str {
        match self {
            V::Null => "null",
            V::Str(_) | V::Big { .. } => "str",
            V::Pre { .. } => "pretok",
            V::U64(_) => "u64",
            V::I64(_) => "i64",
            V::F64(_) => "f64",
            V::Bool(_) => "bool",
            V::Date(_) => "date",
            V::Facet(_) => "facet",
            V::Bytes(_) | V::BigB { .. } => "bytes",
            V::Ip(..) => "ip",
            V::Arr(_) => "array",
            V::Obj(_) => "object",
        }
    }
    pub fn visit(&self, f: &mut dyn FnMut(&V)) {
        f(self);
        match self {
            V::Arr(a) => a.iter().for_each(|x| x.visit(f)),
            V::Obj(o) => o.iter().for_each(|(_, x)| x.visit(f)),
            _ => {}
        }
    }
}

/// JSON objects made of JSON-expressible values only (null, bool, integers, finite floats, strings that cannot be
/// taken for a date, arrays, objects) are - for every second such value, by a hash of the value - handed to tantivy the
/// way an application parsing JSON does: as a `serde_json::Value` converted with `OwnedValue::from`.  That conversion
/// is documented to keep integers exact: i64 if the number fits, u64 otherwise, f64 only for non-integers.
pub fn via_serde(v: &V) -> bool {
    fn expressible(v: &V) -> bool {
        match v {
            V::Null | V::Bool(_) | V::I64(_) | V::U64(_) => true,
            V::F64(bits) => f64::from_bits(*bits).is_finite(),
            V::Str(s) => !(s.len() >= 10 && s.as_bytes()[4] == b'-'),
            V::Arr(a) => a.iter().all(expressible),
            V::Obj(o) => o.iter().all(|(_, x)| expressible(x)),
            _ => false,
        }
    }
    matches!(v, V::Obj(_)) && expressible(v) && crate::engine::fnv(format!("{v:?}").as_bytes()) % 2 == 0
}
fn to_serde(v: &V) -> serde_json::Value {
    match v {
        V::Null => serde_json::Value::Null,
        V::Bool(b) => serde_json::Value::Bool(*b),
        V::I64(x) => serde_json::Value::from(*x),
        V::U64(x) => serde_json::Value::from(*x),
        V::F64(bits) => serde_json::Number::from_f64(f64::from_bits(*bits)).map(serde_json::Value::Number).unwrap_or(serde_json::Value::Null),
        V::Str(s) => serde_json::Value::String(s.clone()),
        V::Arr(a) => serde_json::Value::Array(a.iter().map(to_serde).collect()),
        V::Obj(o) => serde_json::Value::Object(o.iter().map(|(k, x)| (k.clone(), to_serde(x))).collect()),
        _ => serde_json::Value::Null,
    }
}
/// the value `OwnedValue::from(serde_json::Value)` stands for: a non-negative integer that fits an i64 is an i64
fn norm_serde(v: &V) -> V {
    match v {
        V::U64(x) if *x <= i64::MAX as u64 => V::I64(*x as i64),
        V::Arr(a) => V::Arr(a.iter().map(norm_serde).collect()),
        V::Obj(o) => V::Obj(o.iter().map(|(k, x)| (k.clone(), norm_serde(x))).collect()),
        other => other.clone(),
    }
}

pub fn to_owned(v: &V) -> OwnedValue {
    match v {
        V::Null => OwnedValue::Null,
        V::Str(s) => OwnedValue::Str(s.clone()),
        V::Big { kind, seed, len } => OwnedValue::Str(expand_big(*kind, *seed, *len)),
        V::Pre { text, toks } => OwnedValue::PreTokStr(to_pretok(text, toks)),
        V::U64(x) => OwnedValue::U64(*x),
        V::I64(x) => OwnedValue::I64(*x),
        V::F64(bits) => OwnedValue::F64(f64::from_bits(*bits)),
        V::Bool(b) => OwnedValue::Bool(*b),
        V::Date(n) => OwnedValue::Date(DateTime::from_timestamp_nanos(*n)),
        V::Facet(path) => OwnedValue::Facet(Facet::from_path(path.iter().map(|s| s.as_str()))),
        V::Bytes(b) => OwnedValue::Bytes(b.clone()),
        V::BigB { seed, len } => OwnedValue::Bytes(expand_bigb(*seed, *len)),
        V::Ip(h, l) => OwnedValue::IpAddr(Ipv6Addr::from(((*h as u128) << 64) | *l as u128)),
        V::Arr(a) => OwnedValue::Array(a.iter().map(to_owned).collect()),
        V::Obj(o) => OwnedValue::Object(o.iter().map(|(k, x)| (k.clone(), to_owned(x))).collect()),
    }
}
pub fn to_pretok(text: &str, toks: &[Tok]) -> PreTokenizedString {
    PreTokenizedString {
        text: text.to_string(),
        tokens: toks
            .iter()
            .map(|t| Token { offset_from: t.from as usize, offset_to: t.to as usize, position: t.pos as usize, text: t.text.clone(), position_length: t.plen as usize })
            .collect(),
    }
}
/// total conversion of what tantivy returned into the model's value type
pub fn from_owned(v: &OwnedValue) -> V {
    match v {
        OwnedValue::Null => V::Null,
        OwnedValue::Str(s) => V::Str(s.clone()),
        OwnedValue::PreTokStr(p) => V::Pre {
            text: p.text.clone(),
            toks: p
                .tokens
                .iter()
                .map(|t| Tok { from: t.offset_from as u64, to: t.offset_to as u64, pos: t.position as u64, text: t.text.clone(), plen: t.position_length as u64 })
                .collect(),
        },
        OwnedValue::U64(x) => V::U64(*x),
        OwnedValue::I64(x) => V::I64(*x),
        OwnedValue::F64(x) => V::F64(x.to_bits()),
        OwnedValue::Bool(b) => V::Bool(*b),
        OwnedValue::Date(d) => V::Date(d.into_timestamp_nanos()),
        // the encoded form (segments joined by NUL) is the on-disk contract; decode it here without tantivy
        OwnedValue::Facet(f) => {
            let enc = f.encoded_str();
            V::Facet(if enc.is_empty() { vec![] } else { enc.split('\u{0}').map(|s| s.to_string()).collect() })
        }
        OwnedValue::Bytes(b) => V::Bytes(b.clone()),
        OwnedValue::IpAddr(ip) => {
            let x = u128::from(*ip);
            V::Ip((x >> 64) as u64, x as u64)
        }
        OwnedValue::Array(a) => V::Arr(a.iter().map(from_owned).collect()),
        OwnedValue::Object(o) => V::Obj(o.iter().map(|(k, x)| (k.clone(), from_owned(x))).collect()),
    }
}

// ------------------------------------------------------------------------------------------------
// schema

#[derive(Clone, Copy, Debug, PartialEq, Eq)]
pub enum Kind {
    Text,
    /// TEXT|STORED field that receives pre-tokenised values (with well-formed tokens)
    PreText,
    U64,
    I64,
    F64,
    Bool,
    Date,
    Facet,
    Bytes,
    Ip,
    /// stored-only JSON: every leaf type
    JsonAny,
    /// indexed JSON: JSON-ish leaves (null, bool, numbers, strings)
    JsonIdx,
}
pub struct FieldSpec {
    pub name: &'static str,
    pub kind: Kind,
    pub stored: bool,
}
/// field id = position. Fields 0..N_STORED are stored and generated freely; the rest are the *non-stored*
/// fields, filled by the interpreter according to `DocSpec::hidden`, and must never come back.
pub const FIELDS: &[FieldSpec] = &[
    FieldSpec { name: "t", kind: Kind::Text, stored: true },      // TEXT | STORED
    FieldSpec { name: "ts", kind: Kind::Text, stored: true },     // STORED
    FieldSpec { name: "pre", kind: Kind::PreText, stored: true }, // TEXT | STORED
    FieldSpec { name: "u", kind: Kind::U64, stored: true },       // STORED | FAST
    FieldSpec { name: "i", kind: Kind::I64, stored: true },       // STORED | INDEXED
    FieldSpec { name: "f", kind: Kind::F64, stored: true },       // STORED
    FieldSpec { name: "b", kind: Kind::Bool, stored: true },      // STORED | INDEXED
    FieldSpec { name: "d", kind: Kind::Date, stored: true },      // STORED
    FieldSpec { name: "fa", kind: Kind::Facet, stored: true },    // stored facet
    FieldSpec { name: "by", kind: Kind::Bytes, stored: true },    // STORED
    FieldSpec { name: "ip", kind: Kind::Ip, stored: true },       // STORED
    FieldSpec { name: "js", kind: Kind::JsonAny, stored: true },  // STORED
    FieldSpec { name: "jt", kind: Kind::JsonIdx, stored: true },  // TEXT | STORED
    // ---- not stored
    FieldSpec { name: "id", kind: Kind::U64, stored: false },      // FAST | INDEXED   identity of the document
    FieldSpec { name: "sk", kind: Kind::I64, stored: false },      // FAST             sort key
    FieldSpec { name: "ht", kind: Kind::Text, stored: false },     // TEXT
    FieldSpec { name: "hu", kind: Kind::U64, stored: false },      // FAST
    FieldSpec { name: "hj", kind: Kind::JsonIdx, stored: false },  // TEXT
    FieldSpec { name: "hb", kind: Kind::Bytes, stored: false },    // FAST
];
pub const N_STORED: usize = 13;
pub const F_ID: u32 = 13;
pub const F_SK: u32 = 14;
pub const F_HT: u32 = 15;
pub const F_HU: u32 = 16;
pub const F_HJ: u32 = 17;
pub const F_HB: u32 = 18;

pub fn build_schema() -> Schema {
    let mut sb = Schema::builder();
    sb.add_text_field("t", TEXT | STORED);
    sb.add_text_field("ts", STORED);
    sb.add_text_field("pre", TEXT | STORED);
    sb.add_u64_field("u", STORED | FAST);
    sb.add_i64_field("i", STORED | INDEXED);
    sb.add_f64_field("f", STORED);
    sb.add_bool_field("b", STORED | INDEXED);
    sb.add_date_field("d", STORED);
    sb.add_facet_field("fa", FacetOptions::default().set_stored());
    sb.add_bytes_field("by", STORED);
    sb.add_ip_addr_field("ip", STORED);
    sb.add_json_field("js", STORED);
    sb.add_json_field("jt", TEXT | STORED);
    sb.add_u64_field("id", FAST | INDEXED);
    sb.add_i64_field("sk", FAST);
    sb.add_text_field("ht", TEXT);
    sb.add_u64_field("hu", FAST);
    sb.add_json_field("hj", TEXT);
    sb.add_bytes_field("hb", FAST);
    let schema = sb.build();
    debug_assert!(FIELDS.iter().enumerate().all(|(i, f)| schema.get_field(f.name).map(|x| x.field_id() as usize == i && schema.get_field_entry(x).is_stored() == f.stored).unwrap_or(false)));
    schema
}

// ------------------------------------------------------------------------------------------------
// documents

/// One generated document: stored field values in insertion order plus what goes into the non-stored fields.
#[derive(Clone, Debug, Serialize, Deserialize, PartialEq, Eq)]
pub struct DocSpec {
    /// (field id < N_STORED, value of the field's kind)
    pub vals: Vec<(u8, V)>,
    /// sort key (non-stored fast field, exactly one value per document)
    pub sk: i64,
    /// bit 0: ht text, bit 1: hu number (twice), bit 2: hj json, bit 3: hb bytes; bit 4: the non-stored values are
    /// added *before* the stored ones (else after; with bit 5 interleaved after the first stored value)
    pub hidden: u8,
    /// true: values are added with the typed `add_*` methods where one exists, else with `add_field_value(&OwnedValue)`
    pub typed: bool,
}
/// An item of a document list: a literal document or a run of `n` small, equally long documents.
#[derive(Clone, Debug, Serialize, Deserialize, PartialEq, Eq)]
pub enum Item {
    Doc(DocSpec),
    /// `n` documents, each with one `ts` text of exactly `len` bytes whose content depends on (salt, position)
    Fill { n: u16, len: u16, salt: u8 },
    /// `n` documents without any stored value
    Empties { n: u8 },
}
pub fn fill_doc(len: u16, salt: u8, k: usize) -> DocSpec {
    let mut x = (salt as u64) << 20 | k as u64;
    let text: String = (0..len).map(|_| (b'a' + (lcg(&mut x) % 26) as u8) as char).collect();
    DocSpec { vals: vec![(1, V::Str(text))], sk: (lcg(&mut x) % 64) as i64 - 32, hidden: (k % 4) as u8, typed: k % 2 == 0 }
}
pub fn expand_items(items: &[Item]) -> Vec<DocSpec> {
    let mut out = vec![];
    for it in items {
        match it {
            Item::Doc(d) => out.push(d.clone()),
            Item::Fill { n, len, salt } => {
                for k in 0..*n as usize {
                    out.push(fill_doc(*len, *salt, out.len() * 31 + k));
                }
            }
            Item::Empties { n } => {
                for k in 0..*n {
                    out.push(DocSpec { vals: vec![], sk: k as i64, hidden: k % 16, typed: false });
                }
            }
        }
    }
    out
}

/// what a fetch of this document must return: per stored field the values in insertion order
pub type Expected = BTreeMap<u32, Vec<V>>;
pub fn expected_of(d: &DocSpec) -> Expected {
    let mut m: Expected = BTreeMap::new();
    for (f, v) in &d.vals {
        m.entry(*f as u32).or_default().push(v.expected_top().canon());
    }
    m
}

fn check_kind(kind: Kind, v: &V) -> bool {
    matches!(
        (kind, v),
        (Kind::Text, V::Str(_) | V::Big { .. } | V::Pre { .. })
            | (Kind::PreText, V::Pre { .. } | V::Str(_))
            | (Kind::U64, V::U64(_))
            | (Kind::I64, V::I64(_))
            | (Kind::F64, V::F64(_))
            | (Kind::Bool, V::Bool(_))
            | (Kind::Date, V::Date(_))
            | (Kind::Facet, V::Facet(_))
            | (Kind::Bytes, V::Bytes(_) | V::BigB { .. })
            | (Kind::Ip, V::Ip(..))
            | (Kind::JsonAny, V::Obj(_) | V::Arr(_))
            | (Kind::JsonIdx, V::Obj(_))
    )
}

fn add_one(doc: &mut TantivyDocument, field: Field, v: &V, typed: bool) {
    if typed {
        match v {
            V::Str(s) => return doc.add_text(field, s),
            V::Big { kind, seed, len } => return doc.add_text(field, expand_big(*kind, *seed, *len)),
            V::Pre { text, toks } => return doc.add_pre_tokenized_text(field, to_pretok(text, toks)),
            V::U64(x) => return doc.add_u64(field, *x),
            V::I64(x) => return doc.add_i64(field, *x),
            V::F64(x) => return doc.add_f64(field, f64::from_bits(*x)),
            V::Bool(x) => return doc.add_bool(field, *x),
            V::Date(x) => return doc.add_date(field, DateTime::from_timestamp_nanos(*x)),
            V::Facet(p) => return doc.add_facet(field, Facet::from_path(p.iter().map(|s| s.as_str()))),
            V::Bytes(b) => return doc.add_bytes(field, b),
            V::BigB { seed, len } => return doc.add_bytes(field, &expand_bigb(*seed, *len)),
            V::Ip(h, l) => return doc.add_ip_addr(field, Ipv6Addr::from(((*h as u128) << 64) | *l as u128)),
            _ => {}
        }
    }
    if via_serde(v) {
        return doc.add_field_value(field, &OwnedValue::from(to_serde(v)));
    }
    doc.add_field_value(field, &to_owned(v));
}

/// the (field, value) sequence of a document including the non-stored fields, in the order they are added
pub fn field_values(d: &DocSpec, id: u64) -> Result<Vec<(u32, V)>, Failure> {
    for (f, v) in &d.vals {
        let ok = (*f as usize) < N_STORED && check_kind(FIELDS[*f as usize].kind, v);
        if !ok {
            return Err(Failure::new("INFRA:bad_case", format!("field {f} cannot take {}", v.kind_name())));
        }
    }
    let mut hidden: Vec<(u32, V)> = vec![(F_ID, V::U64(id)), (F_SK, V::I64(d.sk))];
    if d.hidden & 1 != 0 {
        hidden.push((F_HT, V::Str(format!("secret hidden{} text", id % 7))));
    }
    if d.hidden & 2 != 0 {
        hidden.push((F_HU, V::U64(id.wrapping_mul(77))));
        hidden.push((F_HU, V::U64(u64::MAX - id)));
    }
    if d.hidden & 4 != 0 {
        hidden.push((F_HJ, V::Obj(vec![("secret".into(), V::Str("hiddenjson".into())), ("n".into(), V::I64(-(id as i64)))])));
    }
    if d.hidden & 8 != 0 {
        hidden.push((F_HB, V::Bytes(vec![0xde, 0xad, (id % 256) as u8])));
    }
    let stored: Vec<(u32, V)> = d.vals.iter().map(|(f, v)| (*f as u32, v.clone())).collect();
    let mut out = vec![];
    if d.hidden & 16 != 0 {
        out.extend(hidden);
        out.extend(stored);
    } else if d.hidden & 32 != 0 && !stored.is_empty() {
        out.push(stored[0].clone());
        out.extend(hidden);
        out.extend(stored[1..].iter().cloned());
    } else {
        out.extend(stored);
        out.extend(hidden);
    }
    Ok(out)
}

pub fn to_tantivy_doc(d: &DocSpec, id: u64) -> Result<TantivyDocument, Failure> {
    let mut doc = TantivyDocument::default();
    for (f, v) in field_values(d, id)? {
        add_one(&mut doc, Field::from_field_id(f), &v, d.typed);
    }
    Ok(doc)
}

/// A second `Document` implementation (plain vector of owned values), written through `StoreWriter::store`.
pub struct VecDoc(pub Vec<(Field, OwnedValue)>);
impl Document for VecDoc {
    type Value<'a> = &'a OwnedValue;
    type FieldsValuesIter<'a> = std::iter::Map<std::slice::Iter<'a, (Field, OwnedValue)>, fn(&'a (Field, OwnedValue)) -> (Field, &'a OwnedValue)>;
    fn iter_fields_and_values(&self) -> Self::FieldsValuesIter<'_> {
        fn split(p: &(Field, OwnedValue)) -> (Field, &OwnedValue) {
            (p.0, &p.1)
        }
        self.0.iter().map(split as fn(&(Field, OwnedValue)) -> (Field, &OwnedValue))
    }
}
pub fn to_vec_doc(d: &DocSpec, id: u64) -> Result<VecDoc, Failure> {
    Ok(VecDoc(field_values(d, id)?.into_iter().map(|(f, v)| (Field::from_field_id(f), if via_serde(&v) { OwnedValue::from(to_serde(&v)) } else { to_owned(&v) })).collect()))
}

/// A second `DocumentDeserialize` implementation: the raw (field, value) sequence, not going through
/// tantivy's compact document.
pub struct RawDoc(pub Vec<(Field, OwnedValue)>);
impl DocumentDeserialize for RawDoc {
    fn deserialize<'de, D>(mut deserializer: D) -> Result<Self, DeserializeError>
    where D: DocumentDeserializer<'de> {
        let mut out = vec![];
        while let Some((field, value)) = deserializer.next_field::<OwnedValue>()? {
            out.push((field, value));
        }
        Ok(RawDoc(out))
    }
}

/// groups a fetched (field, value) sequence per field, keeping the order inside a field
pub fn group<'a>(it: impl Iterator<Item = (Field, OwnedValue)> + 'a) -> Expected {
    let mut m: Expected = BTreeMap::new();
    for (f, v) in it {
        m.entry(f.field_id()).or_default().push(from_owned(&v).canon());
    }
    m
}
pub fn schema() -> &'static Schema {
    static S: std::sync::OnceLock<Schema> = std::sync::OnceLock::new();
    S.get_or_init(build_schema)
}
/// the same grouping read through `Document::to_named_doc` (what `to_json` renders): field name -> values in order
pub fn group_named(doc: &TantivyDocument, schema: &Schema) -> Expected {
    let named = doc.to_named_doc(schema);
    let mut m: Expected = BTreeMap::new();
    for (name, vals) in named.0 {
        if let Ok(f) = schema.get_field(&name) {
            m.insert(f.field_id(), vals.iter().map(|v| from_owned(v).canon()).collect());
        }
    }
    m
}
pub fn group_doc(doc: &TantivyDocument) -> Expected {
    group(doc.field_values().map(|(f, v)| (f, OwnedValue::from(v))))
}

fn short(v: &impl std::fmt::Debug) -> String {
    let mut s = format!("{v:?}");
    if s.len() > 600 {
        let mut cut = 600;
        while !s.is_char_boundary(cut) {
            cut -= 1;
        }
        s.truncate(cut);
        s.push('…');
    }
    s
}

/// The oracle for one fetched document.  `how` names the access path (part of the signature).
pub fn compare(how: &str, got: &Expected, exp: &Expected, what: &dyn Fn() -> String) -> Result<(), Failure> {
    for f in got.keys() {
        let stored = FIELDS.get(*f as usize).map(|s| s.stored).unwrap_or(false);
        if !stored {
            return Err(Failure::new(format!("non_stored_field_returned:{how}"), format!("{}: field {f} ({}) came back: {}", what(), FIELDS.get(*f as usize).map(|s| s.name).unwrap_or("?"), short(&got[f]))));
        }
    }
    if got == exp {
        return Ok(());
    }
    // find the first difference for the report
    for (f, ev) in exp {
        match got.get(f) {
            None => return Err(Failure::new(format!("stored_value_missing:{how}"), format!("{}: field {} lost; expected {}", what(), FIELDS[*f as usize].name, short(ev)))),
            Some(gv) if gv != ev => {
                let sig = if gv.len() != ev.len() {
                    "value_count_differs"
                } else {
                    let mut a = gv.clone();
                    let mut b = ev.clone();
                    a.sort_by_key(|v| format!("{v:?}"));
                    b.sort_by_key(|v| format!("{v:?}"));
                    if a == b {
                        "value_order_differs"
                    } else {
                        "value_differs"
                    }
                };
                let k = gv.iter().zip(ev.iter()).position(|(a, b)| a != b).unwrap_or(0);
                return Err(Failure::new(
                    format!("{sig}:{how}"),
                    format!("{}: field {} value #{k}: got {} expected {}", what(), FIELDS[*f as usize].name, short(&gv.get(k)), short(&ev.get(k))),
                ));
            }
            _ => {}
        }
    }
    let extra: Vec<_> = got.keys().filter(|f| !exp.contains_key(f)).collect();
    Err(Failure::new(format!("unexpected_stored_value:{how}"), format!("{}: fields {extra:?} were never added; got {}", what(), short(got))))
}

// ------------------------------------------------------------------------------------------------
// strategies

fn any_string() -> BoxedStrategy<String> {
    prop_oneof![
        3 => "[a-z]{1,8}( [a-z]{1,8}){0,5}",
        2 => "\\PC{0,16}",
        2 => prop::collection::vec(any::<char>(), 0..12).prop_map(|cs| cs.into_iter().collect::<String>()),
        1 => Just(String::new()),
        1 => prop::sample::select(vec!["\u{0}", "a\u{0}b", "\u{feff}", "\u{10ffff}\u{ffff}", "e\u{301}\u{301}", "\"\\\n\t", "👩‍👩‍👧‍👦", " ", "\u{7f}\u{80}"]).prop_map(|s| s.to_string()),
    ]
    .boxed()
}
fn key_string() -> BoxedStrategy<String> {
    prop_oneof![4 => "[a-d]{1,2}", 1 => "[a-z.]{1,6}", 1 => "\\PC{0,5}", 1 => Just(String::new())].boxed()
}
fn big_len() -> BoxedStrategy<u32> {
    // 128 / 16 384 / 2 097 152 are the length-prefix boundaries of the binary format
    prop_oneof![4 => 100u32..700, 3 => 700u32..5000, 3 => 15_000u32..18_000, 2 => 60_000u32..130_000, 2 => 200_000u32..330_000, 1 => 2_090_000u32..2_110_000].boxed()
}
fn text_value(big_weight: u32) -> BoxedStrategy<V> {
    prop_oneof![
        12 => any_string().prop_map(V::Str),
        big_weight => (0u8..3, any::<u8>(), big_len()).prop_map(|(kind, seed, len)| V::Big { kind, seed, len }),
    ]
    .boxed()
}
fn u64s() -> BoxedStrategy<u64> {
    prop_oneof![2 => 0u64..300, 1 => Just(u64::MAX), 1 => Just(1u64 << 63), 1 => Just((1u64 << 63) - 1), 1 => Just(1u64 << 32), 3 => any::<u64>()].boxed()
}
fn i64s() -> BoxedStrategy<i64> {
    prop_oneof![2 => -300i64..300, 1 => Just(i64::MIN), 1 => Just(i64::MAX), 1 => Just(-1i64), 3 => any::<i64>()].boxed()
}
fn f64bits() -> BoxedStrategy<u64> {
    prop_oneof![
        2 => (-2000i32..2000).prop_map(|x| (x as f64 / 8.0).to_bits()),
        1 => Just(0f64.to_bits()),
        1 => Just((-0f64).to_bits()),
        1 => Just(f64::INFINITY.to_bits()),
        1 => Just(f64::NEG_INFINITY.to_bits()),
        1 => Just(f64::NAN.to_bits()),
        1 => Just(0xfff8_0000_0000_1234u64),
        1 => Just(1u64),
        1 => Just(f64::MAX.to_bits()),
        1 => (-1.0e15f64..1.0e15).prop_map(|x| x.trunc().to_bits()),
        3 => any::<u64>(),
    ]
    .boxed()
}
fn dates() -> BoxedStrategy<i64> {
    prop_oneof![2 => 0i64..2_000_000_000_000_000_000, 1 => Just(i64::MIN), 1 => Just(i64::MAX), 1 => Just(-1i64), 1 => Just(0i64), 2 => any::<i64>()].boxed()
}
fn facets() -> BoxedStrategy<Vec<String>> {
    prop::collection::vec(prop_oneof![3 => "[a-z]{1,5}", 1 => "[a-zé/\\\\ 中]{1,6}"], 0..4).boxed()
}
fn bytes_value(big_weight: u32) -> BoxedStrategy<V> {
    prop_oneof![
        10 => prop::collection::vec(any::<u8>(), 0..40).prop_map(V::Bytes),
        big_weight => (any::<u8>(), big_len()).prop_map(|(seed, len)| V::BigB { seed, len }),
    ]
    .boxed()
}
fn ips() -> BoxedStrategy<V> {
    prop_oneof![
        2 => any::<u32>().prop_map(|x| V::Ip(0, 0xffff_0000_0000u64 | x as u64)), // v4-mapped
        1 => Just(V::Ip(0, 0)),
        1 => Just(V::Ip(0, 1)),
        1 => Just(V::Ip(u64::MAX, u64::MAX)),
        2 => (any::<u64>(), any::<u64>()).prop_map(|(h, l)| V::Ip(h, l)),
    ]
    .boxed()
}
/// well-formed tokens of `text` (split on spaces), as a tokenizer would produce them
fn sane_tokens(text: &str) -> Vec<Tok> {
    let mut toks = vec![];
    let mut pos = 0u64;
    let mut start = None;
    for (i, c) in text.char_indices().chain(std::iter::once((text.len(), ' '))) {
        if c == ' ' {
            if let Some(s) = start.take() {
                if i - s <= 60 {
                    toks.push(Tok { from: s as u64, to: i as u64, pos, text: text[s..i].to_lowercase(), plen: 1 });
                }
                pos += 1;
            }
        } else if start.is_none() {
            start = Some(i);
        }
    }
    toks
}
fn pre_sane() -> BoxedStrategy<V> {
    prop_oneof![3 => "[a-zA-Z]{1,8}( [a-zA-Z]{1,8}){0,5}", 1 => "[a-zé中 ]{0,20}"]
        .prop_map(|text| {
            let toks = sane_tokens(&text);
            V::Pre { text, toks }
        })
        .boxed()
}
fn pre_wild() -> BoxedStrategy<V> {
    let tok = (u64s(), u64s(), prop_oneof![2 => 0u64..20, 1 => Just(u64::MAX)], any_string(), prop_oneof![3 => Just(1u64), 1 => u64s()])
        .prop_map(|(from, to, pos, text, plen)| Tok { from, to, pos, text, plen });
    (any_string(), prop::collection::vec(tok, 0..4)).prop_map(|(text, toks)| V::Pre { text, toks }).boxed()
}

fn leaf_json() -> BoxedStrategy<V> {
    prop_oneof![
        1 => Just(V::Null),
        2 => any::<bool>().prop_map(V::Bool),
        3 => u64s().prop_map(V::U64),
        3 => i64s().prop_map(V::I64),
        3 => f64bits().prop_map(V::F64),
        5 => text_value(1),
    ]
    .boxed()
}
fn leaf_any() -> BoxedStrategy<V> {
    prop_oneof![
        8 => leaf_json(),
        2 => dates().prop_map(V::Date),
        2 => ips(),
        2 => bytes_value(1),
        2 => facets().prop_map(V::Facet),
        2 => pre_wild(),
    ]
    .boxed()
}
fn dedup_keys(mut entries: Vec<(String, V)>) -> Vec<(String, V)> {
    let mut seen = std::collections::HashSet::new();
    entries.retain(|(k, _)| seen.insert(k.clone()));
    entries
}
fn tree(leaf: BoxedStrategy<V>) -> BoxedStrategy<V> {
    leaf.prop_recursive(8, 40, 5, |inner| {
        prop_oneof![
            prop::collection::vec(inner.clone(), 0..5).prop_map(V::Arr),
            prop::collection::vec((key_string(), inner), 0..5).prop_map(|e| V::Obj(dedup_keys(e))),
        ]
    })
    .boxed()
}
/// a chain of `depth` nested containers (alternating by `shape` bits) around a leaf, with siblings
fn chain(leaf: BoxedStrategy<V>) -> BoxedStrategy<V> {
    (prop_oneof![6 => 1usize..=8, 2 => 9usize..=24, 1 => 25usize..=70], any::<u16>(), leaf.clone(), leaf)
        .prop_map(|(depth, shape, inner, sibling)| {
            let mut v = inner;
            for lvl in 0..depth {
                v = if (shape >> (lvl % 8)) & 1 == 0 {
                    if (shape >> (lvl % 8 + 8)) & 1 == 0 {
                        V::Arr(vec![v])
                    } else {
                        V::Arr(vec![sibling.clone(), v, V::Arr(vec![])])
                    }
                } else if (shape >> (lvl % 8 + 8)) & 1 == 0 {
                    V::Obj(vec![("k".into(), v)])
                } else {
                    V::Obj(vec![("z".into(), sibling.clone()), ("k".into(), v), ("a".into(), V::Obj(vec![]))])
                };
            }
            v
        })
        .boxed()
}
/// containers whose element count needs a multi-byte length prefix (>= 128 elements; objects are stored as
/// 2 x entries, so >= 64 entries)
fn wide(leaf: BoxedStrategy<V>) -> BoxedStrategy<V> {
    let small = prop_oneof![3 => (0i64..1000).prop_map(V::I64), 1 => "[a-z]{0,3}".prop_map(V::Str), 1 => leaf];
    prop_oneof![
        (prop_oneof![Just(127usize), Just(128), Just(129), 60usize..300], small.clone(), small.clone()).prop_map(|(n, a, b)| V::Arr((0..n).map(|k| if k % 7 == 3 { b.clone() } else if let V::I64(x) = &a { V::I64(x.wrapping_add(k as i64)) } else { a.clone() }).collect())),
        (prop_oneof![Just(63usize), Just(64), Just(65), 30usize..150], small).prop_map(|(n, a)| V::Obj((0..n).map(|k| (format!("k{k}"), if let V::I64(x) = &a { V::I64(x.wrapping_sub(k as i64)) } else { a.clone() })).collect())),
    ]
    .boxed()
}
fn json_object(leaf: BoxedStrategy<V>) -> BoxedStrategy<V> {
    let member = prop_oneof![12 => tree(leaf.clone()), 4 => chain(leaf.clone()), 1 => wide(leaf)];
    prop::collection::vec((key_string(), member), 0..5).prop_map(|e| V::Obj(dedup_keys(e))).boxed()
}

fn top_array() -> BoxedStrategy<V> {
    let inline = prop_oneof![2 => Just(V::Null), 3 => any::<bool>().prop_map(V::Bool), 1 => Just(V::Arr(vec![])), 1 => Just(V::Obj(vec![]))];
    let nested = prop::collection::vec(inline.clone(), 0..4).prop_map(V::Arr);
    prop::collection::vec(prop_oneof![5 => inline, 1 => nested], 0..5).prop_map(V::Arr).boxed()
}
fn value_for(kind: Kind, big: u32) -> BoxedStrategy<V> {
    match kind {
        Kind::Text => prop_oneof![10 => text_value(big), 1 => pre_wild()].boxed(),
        Kind::PreText => prop_oneof![4 => pre_sane(), 1 => any_string().prop_map(V::Str)].boxed(),
        Kind::U64 => u64s().prop_map(V::U64).boxed(),
        Kind::I64 => i64s().prop_map(V::I64).boxed(),
        Kind::F64 => f64bits().prop_map(V::F64).boxed(),
        Kind::Bool => any::<bool>().prop_map(V::Bool).boxed(),
        Kind::Date => dates().prop_map(V::Date).boxed(),
        Kind::Facet => facets().prop_map(V::Facet).boxed(),
        Kind::Bytes => bytes_value(big).boxed(),
        Kind::Ip => ips(),
        // the stored-only JSON field also takes top-level arrays (add_field_value with OwnedValue::Array), in particular
        // arrays whose elements have no payload of their own (null, bool, empty containers)
        Kind::JsonAny => prop_oneof![12 => json_object(leaf_any()), 1 => top_array(), 1 => prop::collection::vec(tree(leaf_any()), 0..4).prop_map(V::Arr)].boxed(),
        Kind::JsonIdx => json_object(leaf_json()),
    }
}

/// `indexed_ok`: restrict to values that the *indexing* side of an IndexWriter accepts without caveats
/// (the `ts` field — stored only — is the one that takes wild pre-tokenised values); `big` = weight of large payloads.
fn field_strategy(i: usize, big: u32, indexed_ok: bool) -> BoxedStrategy<V> {
    let f = &FIELDS[i];
    if f.name == "t" && indexed_ok {
        text_value(big)
    } else {
        value_for(f.kind, big)
    }
}
fn field_weight(i: usize) -> u32 {
    match FIELDS[i].kind {
        Kind::Text => 4,
        Kind::JsonAny => 5,
        Kind::JsonIdx => 3,
        _ => 2,
    }
}
/// `indexed_ok`: restrict to values that the *indexing* side of an IndexWriter accepts without caveats
/// (the `ts` field — stored only — is the one that takes wild pre-tokenised values); `big` = weight of large payloads.
pub fn field_value(big: u32, indexed_ok: bool) -> BoxedStrategy<(u8, V)> {
    let alts: Vec<(u32, BoxedStrategy<(u8, V)>)> =
        (0..N_STORED).map(|i| (field_weight(i), field_strategy(i, big, indexed_ok).prop_map(move |v| (i as u8, v)).boxed())).collect();
    proptest::strategy::Union::new_weighted(alts).boxed()
}
/// several values of one field, in order
fn multi_values(indexed_ok: bool) -> BoxedStrategy<Vec<(u8, V)>> {
    let alts: Vec<(u32, BoxedStrategy<Vec<(u8, V)>>)> = (0..N_STORED)
        .map(|i| (field_weight(i), prop::collection::vec(field_strategy(i, 0, indexed_ok), 2..6).prop_map(move |vs| vs.into_iter().map(|v| (i as u8, v)).collect::<Vec<_>>()).boxed()))
        .collect();
    proptest::strategy::Union::new_weighted(alts).boxed()
}
pub fn doc_spec(big: u32, indexed_ok: bool) -> BoxedStrategy<DocSpec> {
    let vals = prop_oneof![
        6 => prop::collection::vec(field_value(big, indexed_ok), 0..7),
        2 => (prop::collection::vec(field_value(big, indexed_ok), 0..3), multi_values(indexed_ok), prop::collection::vec(field_value(0, indexed_ok), 0..3)).prop_map(|(mut a, m, b)| {
            a.extend(m);
            a.extend(b);
            a
        }),
        1 => (top_array(), prop::collection::vec(field_value(0, indexed_ok), 0..3)).prop_map(|(a, rest)| std::iter::once((11u8, a)).chain(rest).collect::<Vec<_>>()),
        1 => Just(vec![]),
        // >= 128 values in one document (multi-byte value count)
        1 => (prop_oneof![Just(127usize), Just(128), Just(129), 100usize..280], any::<u8>()).prop_map(|(n, salt)| (0..n).map(|k| match (k + salt as usize) % 4 {
            0 => (3u8, V::U64(k as u64 * 3 + salt as u64)),
            1 => (1u8, V::Str(format!("v{k}"))),
            2 => (4u8, V::I64(-(k as i64))),
            _ => (6u8, V::Bool(k % 3 == 0)),
        }).collect::<Vec<_>>()),
    ];
    (vals, -40i64..40, 0u8..64, any::<bool>()).prop_map(|(vals, sk, hidden, typed)| DocSpec { vals, sk, hidden, typed }).boxed()
}
pub fn item(big: u32, max_fill: u16, indexed_ok: bool) -> BoxedStrategy<Item> {
    prop_oneof![
        12 => doc_spec(big, indexed_ok).prop_map(Item::Doc),
        2 => (1u16..=max_fill, prop_oneof![Just(0u16), Just(1), Just(7), 1u16..40, 100u16..400], any::<u8>()).prop_map(|(n, len, salt)| Item::Fill { n, len, salt }),
        1 => (1u8..12).prop_map(|n| Item::Empties { n }),
    ]
    .boxed()
}
