//! C09 — stored documents are returned exactly as they were added.
//!
//! Sub-checks
//! * `store`: `StoreWriter` / `StoreReader` used directly (public API, no IndexWriter): generated documents,
//!   compressor × block size × dedicated thread, stores composed by `stack` (whole blocks) and by raw-byte
//!   copies with deletions (`get_document_bytes` + `store_bytes`, the re-compressing merge path), nested two
//!   levels deep; read back through `get` (generated access orders, cache 0/1/2/3/50/100), `iter(None)`,
//!   `iter(alive)`; second `Document` / `DocumentDeserialize` implementations as independent observers.
//! * `index`: the same documents through `IndexWriter` (settings incl. sorted index = temp-store path),
//!   commits, deletes, merges of generated segment subsets (stacking and re-compressing), codec / block-size
//!   changes between merges; read back through `Searcher::doc`, `StoreReader::get`, `StoreReader::iter`.
//!   The identity of a document is a *non-stored* fast field, so the oracle never depends on the store.
//! * `fuzz_one`: bytes -> small store case -> same oracle as `store`.
use std::collections::{BTreeMap, BTreeSet};
use std::path::{Path, PathBuf};

use proptest::prelude::*;
use serde::{Deserialize, Serialize};
use serde_json::json;
use tantivy::directory::{Directory, RamDirectory};
use tantivy::fastfield::{write_alive_bitset, AliveBitSet};
use tantivy::index::SegmentComponent;
use tantivy::schema::*;
use tantivy::store::{Compressor, StoreReader, StoreWriter, ZstdCompressor};
use tantivy::{DocAddress, Index, IndexSettings, IndexSortByField, IndexWriter, Order, ReloadPolicy, Searcher};
use tantivy_common::{BitSet, OwnedBytes};

use super::c09_model::*;
use crate::engine::*;
use crate::known::Known;
use crate::ensure;

pub fn def() -> PropDef {
    PropDef {
        id: "C09",
        level: "exploration",
        rule: "store: generated documents (all value types, nested JSON to depth 8, top-level arrays incl. arrays of payload-free elements as first value, multi-valued fields, > 128 interleaved values, empty and huge documents, unicode; fetched documents are compared value by value and again through to_named_doc, the grouping behind to_json) written with StoreWriter under generated compressor/block size/thread settings; stores composed recursively by stack() and by raw-byte copies with deletions; read back by get (generated access orders with repeats, 6 cache sizes), iter(None), iter(alive). index: the same documents through IndexWriter (optionally sorted index), commits, deletes, merges of generated segment subsets, codec/block-size changes between merges; read back by Searcher::doc / StoreReader::get / iter after every step, identity taken from a non-stored fast field. Non-trivial = the store read has > 8 blocks, or a document larger than the block size, or content that went through a stacking step; distinct by case fingerprint.",
        assumptions: vec![
            "a pre-tokenised text added at the top level of a document is stored as its text (tokens are indexing input); nested inside a stored JSON value it comes back with its tokens",
            "f64 values are compared by bit pattern except that any NaN equals any NaN; objects are compared as maps (keys distinct, entry order ignored); values of different fields are compared per field (order inside a field preserved, order across fields ignored)",
            "block / skip-layer counts used for the evidence labels come from an independent parser of the store file's skip index; they never decide a verdict",
            "stack() is only applied to stores of the same decompressor family (the merger's precondition)",
        ],
        subs: vec![Box::new(Store), Box::new(Idx)],
    }
}

// ------------------------------------------------------------------------------------------------
// settings

#[derive(Clone, Debug, Serialize, Deserialize, PartialEq, Eq)]
pub struct StoreCfg {
    /// 0 none, 1 lz4, 2 zstd (default level), 3 zstd with `level`
    pub comp: u8,
    pub level: i8,
    pub block: u32,
    pub thread: bool,
}
impl StoreCfg {
    fn compressor(&self) -> Compressor {
        match self.comp % 4 {
            0 => Compressor::None,
            1 => Compressor::Lz4,
            2 => Compressor::Zstd(ZstdCompressor::default()),
            _ => Compressor::Zstd(ZstdCompressor { compression_level: Some(self.level.clamp(-7, 12) as i32) }),
        }
    }
    fn family(&self) -> u8 {
        (self.comp % 4).min(2)
    }
    fn comp_label(&self) -> &'static str {
        match self.comp % 4 {
            0 => "comp=none",
            1 => "comp=lz4",
            2 => "comp=zstd",
            _ => "comp=zstd(level)",
        }
    }
    fn block_label(&self) -> &'static str {
        match self.block {
            0..=8 => "block<=8B",
            9..=99 => "block<100B",
            100..=4095 => "block<4KiB",
            4096..=16384 => "block<=16KiB",
            _ => "block>16KiB",
        }
    }
}
fn store_cfg() -> BoxedStrategy<StoreCfg> {
    let block = prop_oneof![
        2 => Just(1u32), 1 => Just(2u32), 1 => Just(8u32), 1 => Just(9u32), 2 => Just(64u32), 2 => Just(512u32), 1 => Just(4096u32),
        2 => Just(16_384u32), 2 => Just(100_000u32), 2 => 1u32..200, 2 => 200u32..100_000,
    ];
    (0u8..4, -3i8..10, block, any::<bool>()).prop_map(|(comp, level, block, thread)| StoreCfg { comp, level, block, thread }).boxed()
}

/// how the final store / searcher is read
#[derive(Clone, Debug, Serialize, Deserialize)]
pub struct Reads {
    /// index into CACHES
    pub cache: u8,
    /// accesses, as fractions of the live documents (monotone mapping)
    pub order: Vec<u16>,
    /// documents treated as deleted by `iter(alive)` in the `store` sub-check (fractions)
    pub dead: Vec<u16>,
}
const CACHES: [usize; 6] = [0, 1, 2, 3, 50, 100];
fn reads() -> BoxedStrategy<Reads> {
    let order = prop_oneof![
        3 => prop::collection::vec(any::<u16>(), 0..24),
        // ping-pong between two documents, then a third
        2 => (any::<u16>(), any::<u16>(), any::<u16>(), 2usize..7).prop_map(|(a, b, c, k)| {
            let mut v = vec![];
            for _ in 0..k { v.push(a); v.push(b); }
            v.push(c); v.push(a);
            v
        }),
        // local walk around a position (neighbouring blocks), back and forth
        2 => (any::<u16>(), prop::collection::vec(-700i32..700, 4..16)).prop_map(|(a, ds)| ds.into_iter().map(|d| (a as i32 + d).clamp(0, 65535) as u16).collect()),
        1 => Just(vec![0u16, 65535, 0, 65535, 32768]),
    ];
    (0u8..6, order, prop::collection::vec(any::<u16>(), 0..10)).prop_map(|(cache, order, dead)| Reads { cache, order, dead }).boxed()
}

// ------------------------------------------------------------------------------------------------
// independent parser of the store file layout (labels only):
// [blocks][skip index = Vec<VInt> layer end offsets, layers top..bottom][footer: version u32, offset u64, codec u8, 15 x 0]
#[derive(Debug, Default, Clone)]
pub struct Layout {
    pub layers: usize,
    /// (first doc, number of docs, byte length) of every block
    pub blocks: Vec<(u32, u32, usize)>,
    pub codec_id: u8,
}
fn vint(data: &[u8], pos: &mut usize) -> Option<u64> {
    let mut r = 0u64;
    let mut shift = 0;
    loop {
        let b = *data.get(*pos)?;
        *pos += 1;
        r |= ((b & 127) as u64) << shift;
        if b >= 128 {
            return Some(r);
        }
        shift += 7;
        if shift > 63 {
            return None;
        }
    }
}
pub fn parse_layout(file: &[u8]) -> Option<Layout> {
    if file.len() < 28 {
        return None;
    }
    let foot = &file[file.len() - 28..];
    let offset = u64::from_le_bytes(foot[4..12].try_into().ok()?) as usize;
    let codec_id = foot[12];
    let index = file.get(offset..file.len() - 28)?;
    let mut pos = 0;
    let n_layers = vint(index, &mut pos)? as usize;
    let mut ends = vec![];
    for _ in 0..n_layers {
        ends.push(vint(index, &mut pos)? as usize);
    }
    let body = &index[pos..];
    let mut out = Layout { layers: n_layers, blocks: vec![], codec_id };
    if n_layers == 0 {
        return Some(out);
    }
    let start = if n_layers >= 2 { ends[n_layers - 2] } else { 0 };
    let last = body.get(start..ends[n_layers - 1])?;
    let mut p = 0;
    while p < last.len() {
        let len = vint(last, &mut p)?;
        if len == 0 {
            continue;
        }
        let mut doc = vint(last, &mut p)? as u32;
        let _start_offset = vint(last, &mut p)?;
        for _ in 0..len {
            let nd = vint(last, &mut p)? as u32;
            let nb = vint(last, &mut p)? as usize;
            out.blocks.push((doc, nd, nb));
            doc += nd;
        }
    }
    Some(out)
}
fn layout_labels(cx: &Ctx, l: &Layout) {
    let nb = l.blocks.len();
    cx.label(match nb {
        0 => "blocks=0",
        1 => "blocks=1",
        2..=8 => "blocks=2..8",
        9..=64 => "blocks=9..64",
        65..=512 => "blocks=65..512",
        513..=599 => "blocks=513..599",
        _ => "blocks>=600",
    });
    cx.label_if(l.layers >= 2, "skip_layers>=2");
    cx.label_if(l.layers >= 3, "skip_layers>=3");
    cx.label_if(l.layers >= 4, "skip_layers>=4");
    cx.label_if(nb > 8 && nb % 8 == 0, "blocks_multiple_of_8");
    cx.label_if(nb > 8 && nb % 8 == 1, "blocks=8k+1");
    cx.label_if(nb == 8 || nb == 64 || nb == 512, "blocks=8^k");
    cx.label_if(nb == 9 || nb == 65 || nb == 513, "blocks=8^k+1");
    let max_docs = l.blocks.iter().map(|b| b.1).max().unwrap_or(0);
    cx.label_if(max_docs == 1 && nb > 1, "one_doc_per_block");
    cx.label_if(max_docs >= 2, "several_docs_per_block");
    cx.label_if(max_docs >= 100, "docs_per_block>=100");
    cx.count("blocks_read_back", nb as u64);
}

// ------------------------------------------------------------------------------------------------
// sub-check `store`

#[derive(Clone, Debug, Serialize, Deserialize)]
pub enum Seg {
    /// documents written with `StoreWriter::store`
    Docs(Vec<Item>),
    /// another store stacked block-wise (`StoreWriter::stack`); its codec family is forced to the parent's
    Stack(Box<StoreSpec>),
    /// another store (any codec) copied document by document as raw bytes, skipping `dead` (fractions)
    Copy { src: Box<StoreSpec>, dead: Vec<u16> },
}
#[derive(Clone, Debug, Serialize, Deserialize)]
pub struct StoreSpec {
    pub cfg: StoreCfg,
    /// write documents through the harness's own `Document` implementation instead of `TantivyDocument`
    pub vecdoc: bool,
    pub segs: Vec<Seg>,
}
#[derive(Clone, Debug, Serialize, Deserialize)]
pub struct StoreCase {
    pub spec: StoreSpec,
    pub reads: Reads,
}

struct Built {
    path: PathBuf,
    docs: Vec<Expected>,
    /// some content went through stack()
    stacked: bool,
    copied: bool,
    max_doc_size: usize,
}
struct Builder<'a> {
    dir: &'a RamDirectory,
    schema: &'a Schema,
    files: usize,
    next_id: u64,
}
impl Builder<'_> {
    fn build(&mut self, spec: &StoreSpec) -> Result<Built, Failure> {
        let path = PathBuf::from(format!("store{}", self.files));
        self.files += 1;
        let wrt = self.dir.open_write(&path).or_fail("INFRA:open_write")?;
        let mut w = StoreWriter::new(wrt, spec.cfg.compressor(), spec.cfg.block as usize, spec.cfg.thread).or_fail("store_writer_new")?;
        let mut out = Built { path: path.clone(), docs: vec![], stacked: false, copied: false, max_doc_size: 0 };
        for seg in &spec.segs {
            match seg {
                Seg::Docs(items) => {
                    for d in expand_items(items) {
                        let id = self.next_id;
                        self.next_id += 1;
                        if spec.vecdoc {
                            w.store(&to_vec_doc(&d, id)?, self.schema).or_fail("store_failed")?;
                        } else {
                            w.store(&to_tantivy_doc(&d, id)?, self.schema).or_fail("store_failed")?;
                        }
                        out.max_doc_size = out.max_doc_size.max(d.vals.iter().map(|(_, v)| v.approx_size() + 2).sum::<usize>());
                        out.docs.push(expected_of(&d));
                    }
                }
                Seg::Stack(sub) => {
                    let mut sub = (**sub).clone();
                    if sub.cfg.family() != spec.cfg.family() {
                        sub.cfg.comp = if spec.cfg.family() == 2 { 2 } else { spec.cfg.comp % 4 };
                    }
                    let b = self.build(&sub)?;
                    let reader = StoreReader::open(self.dir.open_read(&b.path).or_fail("INFRA:open_read")?, 1).or_fail("store_open")?;
                    w.stack(reader).or_fail("stack_failed")?;
                    out.docs.extend(b.docs);
                    out.stacked = true;
                    out.copied |= b.copied;
                    out.max_doc_size = out.max_doc_size.max(b.max_doc_size);
                }
                Seg::Copy { src, dead } => {
                    let b = self.build(src)?;
                    let reader = StoreReader::open(self.dir.open_read(&b.path).or_fail("INFRA:open_read")?, 50).or_fail("store_open")?;
                    let n = b.docs.len();
                    let dead: BTreeSet<usize> = if n == 0 { BTreeSet::new() } else { dead.iter().map(|r| idx(*r, n)).collect() };
                    for (d, exp) in b.docs.into_iter().enumerate() {
                        if dead.contains(&d) {
                            continue;
                        }
                        let bytes = reader.get_document_bytes(d as u32).or_fail("get_document_bytes_failed")?;
                        w.store_bytes(&bytes).or_fail("store_bytes_failed")?;
                        out.docs.push(exp);
                    }
                    out.copied = true;
                    out.stacked |= b.stacked;
                    out.max_doc_size = out.max_doc_size.max(b.max_doc_size);
                }
            }
        }
        w.close().or_fail("store_close_failed")?;
        Ok(out)
    }
}

fn alive_bitset(n: usize, dead: &BTreeSet<usize>) -> Result<AliveBitSet, Failure> {
    let mut bs = BitSet::with_max_value_and_full(n as u32);
    for d in dead {
        bs.remove(*d as u32);
    }
    let mut buf = vec![];
    write_alive_bitset(&bs, &mut buf).or_fail("INFRA:write_alive_bitset")?;
    Ok(AliveBitSet::open(OwnedBytes::new(buf)))
}

fn value_labels(cx: &Ctx, docs: &[DocSpec]) {
    let mut kinds: BTreeSet<&'static str> = BTreeSet::new();
    let mut max_depth = 0;
    let mut multi = false;
    let mut nested_special = false;
    let mut unicode = false;
    let mut empty = false;
    let mut wide = false;
    let mut many_vals = false;
    let mut two_mib = false;
    for d in docs {
        empty |= d.vals.is_empty();
        many_vals |= d.vals.len() >= 128;
        let mut per_field: BTreeMap<u8, usize> = BTreeMap::new();
        for (f, v) in &d.vals {
            *per_field.entry(*f).or_default() += 1;
            max_depth = max_depth.max(v.depth());
            let top_container = matches!(v, V::Obj(_));
            v.visit(&mut |x| {
                kinds.insert(x.kind_name());
                if top_container && matches!(x, V::Date(_) | V::Ip(..) | V::Bytes(_) | V::BigB { .. } | V::Facet(_) | V::Pre { .. }) {
                    nested_special = true;
                }
                if let V::Str(s) = x {
                    unicode |= !s.is_ascii();
                }
                if let V::Big { kind: 2, .. } = x {
                    unicode = true;
                }
                match x {
                    V::Arr(a) if a.len() >= 128 => wide = true,
                    V::Obj(o) if o.len() >= 64 => wide = true,
                    V::Big { len, .. } | V::BigB { len, .. } if *len >= (1 << 21) => two_mib = true,
                    _ => {}
                }
            });
        }
        multi |= per_field.values().any(|n| *n >= 2);
    }
    for k in kinds {
        cx.label(&format!("value:{k}"));
    }
    cx.label_if(max_depth >= 3, "json_depth>=3");
    cx.label_if(max_depth >= 6, "json_depth>=6");
    cx.label_if(max_depth >= 8, "json_depth>=8");
    cx.label_if(max_depth > 20, "json_depth>20");
    cx.label_if(max_depth >= 40, "json_depth>=40");
    cx.label_if(multi, "multi_valued_field");
    cx.label_if(nested_special, "json_nested_date_ip_bytes_facet_pretok");
    cx.label_if(unicode, "unicode_text");
    cx.label_if(empty, "empty_document");
    cx.label_if(wide, "json_container>=128_slots");
    cx.label_if(many_vals, "doc_with>=128_values");
    cx.label_if(two_mib, "value>=2MiB");
}
fn spec_docs(spec: &StoreSpec, out: &mut Vec<DocSpec>) {
    for s in &spec.segs {
        match s {
            Seg::Docs(items) => out.extend(expand_items(items)),
            Seg::Stack(sub) => spec_docs(sub, out),
            Seg::Copy { src, .. } => spec_docs(src, out),
        }
    }
}

pub struct Store;
impl Store {
    fn spec_strategy(tier: Tier) -> BoxedStrategy<StoreSpec> {
        let max_fill: u16 = tier.pick(700, 4200);
        let docs = prop_oneof![
            6 => prop::collection::vec(item(1, 40, false), 0..8),
            2 => prop::collection::vec(item(3, 40, false), 1..4),
            // many small documents: skip index with several layers
            2 => (prop_oneof![3 => 1u16..80, 2 => 500u16..=max_fill, 2 => prop::sample::select(vec![7u16, 8, 9, 63, 64, 65, 511, 512, 513, 600, 640])], prop_oneof![Just(0u16), Just(3), 1u16..30], any::<u8>(), prop::collection::vec(item(0, 10, false), 0..3))
                .prop_map(|(n, len, salt, mut tail)| { let mut v = vec![Item::Fill { n, len, salt }]; v.append(&mut tail); v }),
        ];
        let leaf = (store_cfg(), any::<bool>(), prop::collection::vec(docs.clone().prop_map(Seg::Docs), 0..3)).prop_map(|(cfg, vecdoc, segs)| StoreSpec { cfg, vecdoc, segs });
        leaf.prop_recursive(2, 12, 3, move |inner| {
            let seg = prop_oneof![
                3 => docs.clone().prop_map(Seg::Docs),
                3 => inner.clone().prop_map(|s| Seg::Stack(Box::new(s))),
                2 => (inner, prop::collection::vec(any::<u16>(), 0..6)).prop_map(|(s, dead)| Seg::Copy { src: Box::new(s), dead }),
            ];
            (store_cfg(), any::<bool>(), prop::collection::vec(seg, 1..4)).prop_map(|(cfg, vecdoc, segs)| StoreSpec { cfg, vecdoc, segs })
        })
        .boxed()
    }
}
impl Sub for Store {
    type Case = StoreCase;
    fn name(&self) -> &'static str {
        "store"
    }
    fn cases(&self, tier: Tier) -> u32 {
        tier.pick(12_000, 300_000)
    }
    fn max_shrink_iters(&self) -> u32 {
        1500
    }
    fn strategy(&self, tier: Tier) -> BoxedStrategy<StoreCase> {
        (Store::spec_strategy(tier), reads()).prop_map(|(spec, reads)| StoreCase { spec, reads }).boxed()
    }
    fn mandatory_labels(&self, _t: Tier) -> Vec<&'static str> {
        vec![
            "comp=none", "comp=lz4", "comp=zstd", "comp=zstd(level)", "block<=8B", "block>16KiB", "dedicated_thread", "same_thread",
            "blocks>=600", "skip_layers>=4", "blocks=8^k", "blocks=8^k+1", "one_doc_per_block", "several_docs_per_block",
            "doc_larger_than_block", "doc>100KB", "stacked", "stacked_twice", "copied_with_deletes", "copy_recompressed_other_codec",
            "cache=0", "cache=1", "cache=100", "repeat_access", "iter_with_deletes",
            "value:null", "value:str", "value:pretok", "value:u64", "value:i64", "value:f64", "value:bool", "value:date", "value:facet", "value:bytes", "value:ip",
            "value:array", "value:object", "json_depth>=8", "json_depth>20", "json_depth>=40", "multi_valued_field", "json_nested_date_ip_bytes_facet_pretok", "unicode_text", "empty_document", "empty_store", "json_container>=128_slots", "doc_with>=128_values", "value>=2MiB",
        ]
    }
    fn run(&self, c: &StoreCase, cx: &Ctx) -> CaseResult {
        let dir = RamDirectory::create();
        let schema = build_schema();
        let mut b = Builder { dir: &dir, schema: &schema, files: 0, next_id: 0 };
        let built = b.build(&c.spec)?;
        let n = built.docs.len();
        let file = dir.open_read(&built.path).or_fail("INFRA:open_read")?;
        let raw = file.read_bytes().or_fail("INFRA:read")?;
        let layout = parse_layout(raw.as_slice());
        let cache = CACHES[c.reads.cache as usize % CACHES.len()];
        let reader = StoreReader::open(file.clone(), cache).or_fail("store_open")?;

        // (1) iter(None): every document, in document-id order
        let mut count = 0usize;
        for (d, got) in reader.iter::<TantivyDocument>(None).enumerate() {
            let got = got.or_fail("iter_item_error")?;
            ensure!(d < n, "iter_yields_too_many", "store of {n} documents yielded a document #{d}");
            compare("iter", &group_doc(&got), &built.docs[d], &|| format!("iter(None) item {d} of {n}"))?;
            count += 1;
        }
        ensure!(count == n, "iter_yields_too_few", "iter(None) yielded {count} of {n} documents");
        cx.evals(n as u64);

        // (2) generated access order through get (cache state carried along)
        let mut seen = BTreeSet::new();
        let mut repeat = false;
        if n > 0 {
            for (k, r) in c.reads.order.iter().enumerate() {
                let d = idx(*r, n);
                repeat |= !seen.insert(d);
                if k % 3 == 2 {
                    let got: RawDoc = reader.get(d as u32).map_err(|e| Failure::new("get_error", format!("get::<RawDoc>({d}) of {n}: {e:?}")))?;
                    compare("get_raw", &group(got.0.into_iter()), &built.docs[d], &|| format!("get::<RawDoc>({d}) of {n}, access #{k}"))?;
                } else {
                    let got: TantivyDocument = reader.get(d as u32).map_err(|e| Failure::new("get_error", format!("get({d}) of {n}, access #{k}, cache {cache}: {e:?}")))?;
                    compare("get", &group_doc(&got), &built.docs[d], &|| format!("get({d}) of {n}, access #{k}, cache {cache}"))?;
                    // the rendering used by to_json groups the values per field and must keep their order
                    compare("named_doc", &group_named(&got, &schema), &built.docs[d], &|| format!("to_named_doc of get({d}) of {n}"))?;
                }
            }
            cx.evals(c.reads.order.len() as u64);
            // (3) sweep: every document once, descending (exercises seek from the top for every target)
            let step = if n > 3000 { 3 } else { 1 };
            let mut d = n;
            while d > 0 {
                d -= 1;
                if d % step != 0 && d + 1 != n {
                    continue;
                }
                let got: TantivyDocument = reader.get(d as u32).map_err(|e| Failure::new("get_error", format!("get({d}) of {n} in the descending sweep, cache {cache}: {e:?}")))?;
                compare("get", &group_doc(&got), &built.docs[d], &|| format!("get({d}) of {n} in the descending sweep, cache {cache}"))?;
                cx.evals(1);
            }
        }
        // (4) iter(alive): exactly the live documents in order
        let dead: BTreeSet<usize> = if n == 0 { BTreeSet::new() } else { c.reads.dead.iter().map(|r| idx(*r, n)).collect() };
        if n > 0 {
            let alive = alive_bitset(n, &dead)?;
            let live: Vec<usize> = (0..n).filter(|d| !dead.contains(d)).collect();
            let mut k = 0;
            for got in reader.iter::<TantivyDocument>(Some(&alive)) {
                let got = got.or_fail("iter_item_error")?;
                ensure!(k < live.len(), "iter_alive_yields_too_many", "{} live documents, item #{k}", live.len());
                compare("iter_alive", &group_doc(&got), &built.docs[live[k]], &|| format!("iter(alive) item {k} = doc {} of {n}, deleted {dead:?}", live[k]))?;
                k += 1;
            }
            ensure!(k == live.len(), "iter_alive_yields_too_few", "iter(alive) yielded {k} of {} live documents", live.len());
        }

        // evidence
        let mut all = vec![];
        spec_docs(&c.spec, &mut all);
        value_labels(cx, &all);
        cx.label(c.spec.cfg.comp_label());
        cx.label(c.spec.cfg.block_label());
        cx.label(if c.spec.cfg.thread { "dedicated_thread" } else { "same_thread" });
        cx.label(&format!("cache={cache}"));
        cx.label_if(repeat, "repeat_access");
        cx.label_if(!dead.is_empty(), "iter_with_deletes");
        cx.label_if(n == 0, "empty_store");
        cx.label_if(c.spec.vecdoc, "written_through_custom_Document");
        cx.label_if(built.stacked, "stacked");
        cx.label_if(built.copied, "copied");
        let mut stacked_twice = false;
        let mut copy_dead = false;
        let mut copy_other = false;
        fn walk(s: &StoreSpec, depth_stack: usize, st: &mut bool, cd: &mut bool, co: &mut bool) {
            for seg in &s.segs {
                match seg {
                    Seg::Docs(_) => {}
                    Seg::Stack(sub) => {
                        if depth_stack >= 1 && sub.segs.iter().any(|x| matches!(x, Seg::Docs(i) if !i.is_empty())) {
                            *st = true;
                        }
                        walk(sub, depth_stack + 1, st, cd, co);
                    }
                    Seg::Copy { src, dead } => {
                        *cd |= !dead.is_empty() && src.segs.iter().any(|x| !matches!(x, Seg::Docs(i) if i.is_empty()));
                        *co |= src.cfg.family() != s.cfg.family();
                        walk(src, 0, st, cd, co);
                    }
                }
            }
        }
        walk(&c.spec, 0, &mut stacked_twice, &mut copy_dead, &mut copy_other);
        cx.label_if(stacked_twice, "stacked_twice");
        cx.label_if(copy_dead, "copied_with_deletes");
        cx.label_if(copy_other, "copy_recompressed_other_codec");
        cx.label_if(built.max_doc_size > c.spec.cfg.block as usize && c.spec.cfg.block >= 64, "doc_larger_than_block");
        cx.label_if(built.max_doc_size > 100_000, "doc>100KB");
        let mut many_blocks = false;
        match &layout {
            Some(l) => {
                layout_labels(cx, l);
                many_blocks = l.blocks.len() > 8;
                let docs_in_layout: u32 = l.blocks.iter().map(|b| b.1).sum();
                cx.label_if(docs_in_layout as usize != n, "layout_parser_disagrees");
            }
            None => cx.label("layout_parser_failed"),
        }
        if many_blocks || built.stacked || (built.max_doc_size > c.spec.cfg.block as usize && c.spec.cfg.block >= 64) {
            cx.nontrivial(fp(c));
        }
        cx.sample(|| json!({"sub":"store","cfg":c.spec.cfg,"docs":n,"blocks":layout.as_ref().map(|l| l.blocks.len()),"layers":layout.as_ref().map(|l| l.layers),"first_doc":all.first()}));
        Ok(())
    }
}

// ------------------------------------------------------------------------------------------------
// sub-check `index`

#[derive(Clone, Debug, Serialize, Deserialize)]
pub enum Op {
    /// add the documents and commit (one new segment)
    Add(Vec<Item>),
    /// delete live documents (fractions of the live list) and commit
    Delete(Vec<u16>),
    /// add the documents, delete some live documents (possibly just added ones: the new segment is born with a
    /// delete bitset) and commit once
    AddDel(Vec<Item>, Vec<u16>),
    /// merge the segments selected by the bit mask over the segments ordered by their smallest id (no bit = all)
    Merge(u16),
    /// re-create the writer on an index handle whose docstore settings are replaced (later merges re-compress)
    Recfg(StoreCfg),
    /// back to the settings the index was created with (segments of both codecs exist, the target codec is the older one)
    RecfgInitial,
}
#[derive(Clone, Debug, Serialize, Deserialize)]
pub struct IndexCase {
    pub cfg: StoreCfg,
    /// 0 unsorted, 1 sorted ascending by the non-stored key, 2 descending
    pub sort: u8,
    pub first: Vec<Item>,
    pub ops: Vec<Op>,
    pub reads: Reads,
}

struct Model {
    docs: BTreeMap<u64, (Expected, bool)>,
}
impl Model {
    fn live(&self) -> Vec<u64> {
        self.docs.iter().filter(|(_, v)| v.1).map(|(k, _)| *k).collect()
    }
}

fn settings(cfg: &StoreCfg, sort: u8) -> IndexSettings {
    IndexSettings {
        sort_by_field: match sort % 3 {
            0 => None,
            1 => Some(IndexSortByField { field: "sk".into(), order: Order::Asc }),
            _ => Some(IndexSortByField { field: "sk".into(), order: Order::Desc }),
        },
        docstore_compression: cfg.compressor(),
        docstore_blocksize: cfg.block as usize,
        docstore_compress_dedicated_thread: cfg.thread,
        ..Default::default()
    }
}

struct SegInfo {
    ord: u32,
    min_id: u64,
    ids: Vec<(u64, bool)>,
    has_deletes: bool,
    layout: Option<Layout>,
}
fn store_bytes_of(index: &Index, sr: &tantivy::SegmentReader) -> Option<Vec<u8>> {
    let metas = index.searchable_segment_metas().ok()?;
    let meta = metas.iter().find(|m| m.id() == sr.segment_id())?;
    let path = meta.relative_path(SegmentComponent::Store);
    let slice = index.directory().open_read(&path).ok()?;
    Some(slice.read_bytes().ok()?.as_slice().to_vec())
}
fn seg_infos(index: &Index, searcher: &Searcher) -> Result<Vec<SegInfo>, Failure> {
    let mut out = vec![];
    for (ord, sr) in searcher.segment_readers().iter().enumerate() {
        let col = sr.fast_fields().u64("id").or_fail("INFRA:id_column")?;
        let mut ids = vec![];
        for d in 0..sr.max_doc() {
            let id = col.first(d).ok_or_else(|| Failure::new("INFRA:id_missing", format!("segment {ord} doc {d}")))?;
            ids.push((id, sr.alive_bitset().map(|b| b.is_alive(d)).unwrap_or(true)));
        }
        let min_id = ids.iter().map(|x| x.0).min().unwrap_or(u64::MAX);
        let layout = store_bytes_of(index, sr).and_then(|b| parse_layout(&b));
        out.push(SegInfo { ord: ord as u32, min_id, ids, has_deletes: sr.has_deletes(), layout });
    }
    Ok(out)
}

/// reads everything back and compares with the model
fn verify(index: &Index, model: &Model, reads: &Reads, step: usize, cx: &Ctx) -> Result<Vec<SegInfo>, Failure> {
    let cache = CACHES[reads.cache as usize % CACHES.len()];
    let reader = index.reader_builder().reload_policy(ReloadPolicy::Manual).doc_store_cache_num_blocks(cache).try_into().or_fail("reader_open_failed")?;
    let searcher: Searcher = reader.searcher();
    let infos = seg_infos(index, &searcher)?;
    // the live documents, by identity (non-stored fast field + alive bitset)
    let mut live: Vec<(u64, DocAddress)> = vec![];
    for s in &infos {
        for (d, (id, alive)) in s.ids.iter().enumerate() {
            if *alive {
                live.push((*id, DocAddress::new(s.ord, d as u32)));
            }
        }
    }
    live.sort();
    let live_ids: Vec<u64> = live.iter().map(|x| x.0).collect();
    let want = model.live();
    ensure!(live_ids == want, "INFRA:live_documents_differ", "step {step}: searcher has {} live documents, model {} (first difference {:?})", live_ids.len(), want.len(), live_ids.iter().zip(want.iter()).find(|(a, b)| a != b));
    let exp = |id: u64| &model.docs[&id].0;
    // (1) generated access order through Searcher::doc
    if !live.is_empty() {
        for (k, r) in reads.order.iter().enumerate() {
            let (id, addr) = live[idx(*r, live.len())];
            let got: TantivyDocument = searcher.doc(addr).map_err(|e| Failure::new("searcher_doc_error", format!("step {step}: Searcher::doc({addr:?}) id {id}, access #{k}, cache {cache}: {e:?}")))?;
            compare("searcher_doc", &group_doc(&got), exp(id), &|| format!("step {step}: Searcher::doc({addr:?}) id {id}, access #{k}, cache {cache}"))?;
        }
        cx.evals(reads.order.len() as u64);
    }
    // (2) every live document once, by id order (jumps between segments and blocks)
    for (id, addr) in &live {
        let got: TantivyDocument = searcher.doc(*addr).map_err(|e| Failure::new("searcher_doc_error", format!("step {step}: Searcher::doc({addr:?}) id {id} (sweep), cache {cache}: {e:?}")))?;
        compare("searcher_doc", &group_doc(&got), exp(*id), &|| format!("step {step}: Searcher::doc({addr:?}) id {id} (sweep), cache {cache}"))?;
        compare("named_doc", &group_named(&got, schema()), exp(*id), &|| format!("step {step}: to_named_doc of Searcher::doc({addr:?}) id {id}"))?;
    }
    cx.evals(live.len() as u64);
    // (3) per segment: iter yields the live documents in doc-id order; get on a fresh reader
    for s in &infos {
        let sr = searcher.segment_reader(s.ord);
        let store = sr.get_store_reader(cache.min(3)).or_fail("get_store_reader_failed")?;
        let live_here: Vec<(u32, u64)> = s.ids.iter().enumerate().filter(|(_, x)| x.1).map(|(d, x)| (d as u32, x.0)).collect();
        let mut k = 0;
        for got in store.iter::<TantivyDocument>(sr.alive_bitset()) {
            let got = got.or_fail("iter_item_error")?;
            ensure!(k < live_here.len(), "iter_yields_too_many", "step {step}: segment {} has {} live documents, iter yields more", s.ord, live_here.len());
            let (d, id) = live_here[k];
            compare("iter", &group_doc(&got), exp(id), &|| format!("step {step}: segment {} iter item {k} (doc {d}, id {id})", s.ord))?;
            k += 1;
        }
        ensure!(k == live_here.len(), "iter_yields_too_few", "step {step}: segment {} iter yielded {k} of {} live documents", s.ord, live_here.len());
        for (j, (d, id)) in live_here.iter().enumerate().rev() {
            if j % 4 == 0 || j + 1 == live_here.len() {
                let got: RawDoc = store.get(*d).map_err(|e| Failure::new("get_error", format!("step {step}: segment {} StoreReader::get({d}) id {id}: {e:?}", s.ord)))?;
                compare("get_raw", &group(got.0.into_iter()), exp(*id), &|| format!("step {step}: segment {} StoreReader::get::<RawDoc>({d}) id {id}", s.ord))?;
            }
        }
        cx.evals(live_here.len() as u64);
    }
    Ok(infos)
}

pub struct Idx;
impl Sub for Idx {
    type Case = IndexCase;
    fn name(&self) -> &'static str {
        "index"
    }
    fn cases(&self, tier: Tier) -> u32 {
        tier.pick(3000, 60_000)
    }
    fn max_shrink_iters(&self) -> u32 {
        600
    }
    fn strategy(&self, tier: Tier) -> BoxedStrategy<IndexCase> {
        let max_fill: u16 = tier.pick(640, 1300);
        let docs = move |big: u32| {
            prop_oneof![
                6 => prop::collection::vec(item(big, 30, true), 1..8),
                2 => (prop_oneof![3 => 6u16..40, 1 => 600u16..=max_fill, 2 => prop::sample::select(vec![5u16, 6, 7, 8, 9, 64, 65])], prop_oneof![Just(0u16), 1u16..20], any::<u8>(), prop::collection::vec(item(0, 6, true), 0..3))
                    .prop_map(|(n, len, salt, mut tail)| { let mut v = vec![Item::Fill { n, len, salt }]; v.append(&mut tail); v }),
            ]
        };
        let op = prop_oneof![
            4 => docs(1).prop_map(Op::Add),
            2 => prop::collection::vec(any::<u16>(), 1..5).prop_map(Op::Delete),
            1 => (docs(0), prop::collection::vec(any::<u16>(), 1..5)).prop_map(|(d, p)| Op::AddDel(d, p)),
            4 => prop_oneof![4 => Just(0u16), 1 => Just(1u16), 1 => Just(2u16), 2 => Just(3u16), 1 => Just(6u16), 3 => any::<u16>()].prop_map(Op::Merge),
            2 => store_cfg().prop_map(Op::Recfg),
            1 => Just(Op::RecfgInitial),
        ];
        let generic = (store_cfg(), prop_oneof![3 => Just(0u8), 1 => Just(1u8), 1 => Just(2u8)], docs(2), prop::collection::vec(op, 0..7), reads())
            .prop_map(|(cfg, sort, first, ops, reads)| IndexCase { cfg, sort, first, ops, reads });
        // segments written with two different codecs, merged (in both orders of "which one is the target codec") while
        // every source is large enough and free of deletes, i.e. would be stacked if its codec were the target's
        let mixed = (store_cfg(), store_cfg(), 8u16..40, 8u16..40, any::<u8>(), any::<bool>(), any::<bool>(), reads()).prop_map(|(mut a, mut b, n1, n2, salt, back, add_after, reads)| {
            a.block = a.block.min(64);
            b.block = b.block.min(64);
            if b.family() == a.family() {
                b.comp = (a.family() + 1) % 3;
            }
            let mut ops = vec![Op::Recfg(b), Op::Add(vec![Item::Fill { n: n2, len: 5, salt: salt.wrapping_add(1) }])];
            if back {
                ops.push(Op::RecfgInitial);
            }
            if add_after {
                ops.push(Op::Add(vec![Item::Fill { n: 3, len: 2, salt: salt.wrapping_add(2) }]));
            }
            ops.push(Op::Merge(0));
            IndexCase { cfg: a, sort: 0, first: vec![Item::Fill { n: n1, len: 5, salt }], ops, reads }
        });
        prop_oneof![12 => generic, 1 => mixed].boxed()
    }
    fn mandatory_labels(&self, _t: Tier) -> Vec<&'static str> {
        vec![
            "comp=none", "comp=lz4", "comp=zstd", "comp=zstd(level)", "block<=8B", "block>16KiB", "dedicated_thread", "same_thread",
            "sorted_index", "unsorted_index", "has_deletes", "delete_in_same_commit_as_add", "segments>=3",
            "merge", "merge_src_stackable", "merge_all_stacked", "merge_all_stacked_multi", "merge_src_has_deletes", "merge_src_lt6_blocks", "merge_codec_changed", "merge_later_src_other_codec_after_same_codec_first", "merge_later_src_same_codec_after_other_codec_first", "merge_sorted", "merge_of_merged", "merge_single_segment",
            "blocks>=600", "skip_layers>=4", "doc_larger_than_block", "doc>100KB", "cache=0", "cache=1", "cache=100",
            "value:null", "value:str", "value:pretok", "value:u64", "value:i64", "value:f64", "value:bool", "value:date", "value:facet", "value:bytes", "value:ip",
            "value:array", "value:object", "json_depth>=8", "json_depth>20", "json_depth>=40", "multi_valued_field", "json_nested_date_ip_bytes_facet_pretok", "unicode_text", "empty_document", "json_container>=128_slots", "doc_with>=128_values", "value>=2MiB",
        ]
    }
    fn run(&self, c: &IndexCase, cx: &Ctx) -> CaseResult {
        let schema = build_schema();
        let id_field = Field::from_field_id(F_ID);
        let mut index = Index::builder().schema(schema.clone()).settings(settings(&c.cfg, c.sort)).create_in_ram().or_fail("INFRA:create_index")?;
        let new_writer = |index: &Index| -> Result<IndexWriter, Failure> {
            let w: IndexWriter = crate::util::writer(index, Default::default()).or_fail("INFRA:writer")?;
            w.set_merge_policy(Box::new(tantivy::merge_policy::NoMergePolicy));
            // burn the opstamp that equals the last commit's (DESIGN §5 item 16, not this property's subject)
            let _ = w.run(Vec::<tantivy::indexer::UserOperation>::new());
            Ok(w)
        };
        let mut w = new_writer(&index)?;
        let mut model = Model { docs: BTreeMap::new() };
        let mut next_id = 0u64;
        let mut all_docs: Vec<DocSpec> = vec![];
        let mut cur_cfg = c.cfg.clone();
        let mut merged_once = false;
        let mut nontrivial = false;
        let mut max_doc_size = 0usize;
        let mut ops: Vec<Op> = vec![Op::Add(c.first.clone())];
        ops.extend(c.ops.iter().cloned());
        // ids of documents that live in a segment produced by a merge
        let mut in_merged: BTreeSet<u64> = BTreeSet::new();
        for (step, op) in ops.iter().enumerate() {
            match op {
                Op::Add(items) | Op::AddDel(items, _) => {
                    let docs = expand_items(items);
                    for d in &docs {
                        let id = next_id;
                        next_id += 1;
                        w.add_document(to_tantivy_doc(d, id)?).or_fail("add_document_failed")?;
                        model.docs.insert(id, (expected_of(d), true));
                        max_doc_size = max_doc_size.max(d.vals.iter().map(|(_, v)| v.approx_size() + 2).sum::<usize>());
                    }
                    if let Op::AddDel(_, picks) = op {
                        let live = model.live();
                        for p in picks {
                            if live.is_empty() {
                                break;
                            }
                            let id = live[idx(*p, live.len())];
                            w.delete_term(Term::from_field_u64(id_field, id));
                            model.docs.get_mut(&id).unwrap().1 = false;
                        }
                        cx.label("has_deletes");
                        cx.label("delete_in_same_commit_as_add");
                    }
                    w.commit().or_fail("commit_failed")?;
                    all_docs.extend(docs);
                }
                Op::Delete(picks) => {
                    let live = model.live();
                    if live.is_empty() {
                        continue;
                    }
                    for p in picks {
                        let id = live[idx(*p, live.len())];
                        w.delete_term(Term::from_field_u64(id_field, id));
                        model.docs.get_mut(&id).unwrap().1 = false;
                    }
                    w.commit().or_fail("commit_failed")?;
                    cx.label("has_deletes");
                }
                Op::Recfg(_) | Op::RecfgInitial => {
                    let cfg = if let Op::Recfg(cfg) = op { cfg } else { &c.cfg };
                    drop(w);
                    let mut index2 = index.clone();
                    index2.settings_mut().docstore_compression = cfg.compressor();
                    index2.settings_mut().docstore_blocksize = cfg.block as usize;
                    index2.settings_mut().docstore_compress_dedicated_thread = cfg.thread;
                    index = index2;
                    w = new_writer(&index)?;
                    cur_cfg = cfg.clone();
                    cx.label("settings_changed");
                    continue;
                }
                Op::Merge(mask) => {
                    let reader = index.reader_builder().reload_policy(ReloadPolicy::Manual).try_into().or_fail("reader_open_failed")?;
                    let searcher: Searcher = reader.searcher();
                    let mut infos = seg_infos(&index, &searcher)?;
                    infos.sort_by_key(|s| s.min_id);
                    let mut chosen: Vec<&SegInfo> = infos.iter().enumerate().filter(|(k, _)| *k < 16 && (mask >> *k) & 1 == 1).map(|(_, s)| s).collect();
                    if chosen.is_empty() {
                        chosen = infos.iter().collect();
                    }
                    if chosen.is_empty() {
                        continue;
                    }
                    let seg_ids: Vec<_> = chosen.iter().map(|s| searcher.segment_reader(s.ord).segment_id()).collect();
                    // classification of the merge (evidence only), by the merger's documented rule
                    let mut all_stack = c.sort % 3 == 0;
                    let codec_of = |s: &SegInfo| s.layout.as_ref().map(|l| l.codec_id == [0u8, 1, 4][cur_cfg.family() as usize]).unwrap_or(false);
                    let first_same = chosen.first().map(|s| codec_of(s)).unwrap_or(false);
                    for (k, s) in chosen.iter().enumerate() {
                        let blocks = s.layout.as_ref().map(|l| l.blocks.len()).unwrap_or(0);
                        // the first source is in the target codec, a later one is not but would otherwise be stacked
                        cx.label_if(k > 0 && first_same && !codec_of(s) && !s.has_deletes && blocks >= 6 && c.sort % 3 == 0, "merge_later_src_other_codec_after_same_codec_first");
                        cx.label_if(k > 0 && !first_same && codec_of(s) && !s.has_deletes && blocks >= 6 && c.sort % 3 == 0, "merge_later_src_same_codec_after_other_codec_first");
                    }
                    for s in &chosen {
                        let blocks = s.layout.as_ref().map(|l| l.blocks.len()).unwrap_or(0);
                        let same_codec = s.layout.as_ref().map(|l| l.codec_id == [0u8, 1, 4][cur_cfg.family() as usize]).unwrap_or(false);
                        cx.label_if(s.has_deletes, "merge_src_has_deletes");
                        cx.label_if(blocks < 6, "merge_src_lt6_blocks");
                        cx.label_if(!same_codec, "merge_codec_changed");
                        let stackable = !s.has_deletes && blocks >= 6 && same_codec && c.sort % 3 == 0;
                        cx.label_if(stackable, "merge_src_stackable");
                        all_stack &= stackable;
                        if stackable {
                            nontrivial = true;
                        }
                        cx.label_if(s.ids.iter().any(|x| in_merged.contains(&x.0)), "merge_of_merged");
                    }
                    cx.label_if(all_stack, "merge_all_stacked");
                    cx.label_if(all_stack && chosen.len() >= 2, "merge_all_stacked_multi");
                    cx.label_if(c.sort % 3 != 0, "merge_sorted");
                    cx.label_if(chosen.len() == 1, "merge_single_segment");
                    cx.label("merge");
                    for s in &chosen {
                        in_merged.extend(s.ids.iter().map(|x| x.0));
                    }
                    drop(searcher);
                    drop(reader);
                    w.merge(&seg_ids).wait().or_fail("merge_failed")?;
                    merged_once = true;
                }
            }
            let infos = verify(&index, &model, &c.reads, step, cx)?;
            cx.label_if(infos.len() >= 3, "segments>=3");
            for s in &infos {
                if let Some(l) = &s.layout {
                    layout_labels(cx, l);
                    nontrivial |= l.blocks.len() > 8;
                }
            }
        }
        drop(w);
        value_labels(cx, &all_docs);
        cx.label(c.cfg.comp_label());
        cx.label(c.cfg.block_label());
        cx.label(if c.cfg.thread { "dedicated_thread" } else { "same_thread" });
        cx.label(&format!("cache={}", CACHES[c.reads.cache as usize % CACHES.len()]));
        cx.label(if c.sort % 3 == 0 { "unsorted_index" } else { "sorted_index" });
        cx.label_if(merged_once, "merged");
        let big_doc = max_doc_size > c.cfg.block as usize && c.cfg.block >= 64;
        cx.label_if(big_doc, "doc_larger_than_block");
        cx.label_if(max_doc_size > 100_000, "doc>100KB");
        if nontrivial || big_doc {
            cx.nontrivial(fp(c));
        }
        cx.sample(|| json!({"sub":"index","cfg":c.cfg,"sort":c.sort,"docs":all_docs.len(),"ops":c.ops.iter().map(|o| match o { Op::Add(i) => format!("add {}", expand_items(i).len()), Op::AddDel(i, p) => format!("add {} delete {}", expand_items(i).len(), p.len()), Op::Delete(p) => format!("delete {}", p.len()), Op::Merge(m) => format!("merge {m:#x}"), Op::Recfg(c) => format!("recfg {c:?}"), Op::RecfgInitial => "recfg-initial".to_string() }).collect::<Vec<_>>()}));
        Ok(())
    }
}

// ------------------------------------------------------------------------------------------------
// libFuzzer entry: bytes -> small store case (JSON-ish documents) -> the `store` oracle

struct Bytes<'a> {
    data: &'a [u8],
    pos: usize,
}
impl Bytes<'_> {
    fn u8(&mut self) -> u8 {
        let b = self.data.get(self.pos).copied().unwrap_or(0);
        self.pos += 1;
        b
    }
    fn u16(&mut self) -> u16 {
        u16::from_le_bytes([self.u8(), self.u8()])
    }
    fn u64(&mut self) -> u64 {
        let mut x = 0u64;
        for k in 0..8 {
            x |= (self.u8() as u64) << (8 * k);
        }
        x
    }
    fn left(&self) -> bool {
        self.pos < self.data.len()
    }
    fn string(&mut self) -> String {
        let n = (self.u8() % 20) as usize;
        let mut s = String::new();
        for _ in 0..n {
            let b = self.u8();
            match b {
                0..=0x7f => s.push(b as char),
                0x80..=0xbf => s.push(char::from_u32(0x80 + (b as u32 - 0x80) * 37).unwrap_or('é')),
                0xc0..=0xef => s.push(char::from_u32(0x3000 + (b as u32 - 0xc0) * 211).unwrap_or('中')),
                _ => s.push(char::from_u32(0x1f600 + (b as u32 - 0xf0)).unwrap_or('😀')),
            }
        }
        s
    }
    fn json(&mut self, depth: usize) -> V {
        let tag = self.u8();
        match tag % 10 {
            0 => V::Null,
            1 => V::Bool(tag & 16 != 0),
            2 => V::U64(self.u64()),
            3 => V::I64(self.u64() as i64),
            4 => V::F64(self.u64()),
            5 | 6 => V::Str(self.string()),
            7 if depth < 8 => {
                let n = (self.u8() % 4) as usize;
                V::Arr((0..n).map(|_| self.json(depth + 1)).collect())
            }
            8 | 9 if depth < 8 => self.object(depth + 1),
            _ => V::I64(tag as i64 - 128),
        }
    }
    fn object(&mut self, depth: usize) -> V {
        let n = (self.u8() % 4) as usize;
        let mut entries: Vec<(String, V)> = vec![];
        for k in 0..n {
            let mut key = self.string();
            if entries.iter().any(|e| e.0 == key) {
                key = format!("{key}#{k}");
            }
            let v = self.json(depth);
            entries.push((key, v));
        }
        V::Obj(entries)
    }
    fn cfg(&mut self) -> StoreCfg {
        let a = self.u8();
        let b = self.u8();
        const BLOCKS: [u32; 8] = [1, 8, 9, 40, 64, 512, 16_384, 100_000];
        StoreCfg { comp: a % 4, level: ((a >> 2) % 12) as i8 - 2, block: BLOCKS[(b % 8) as usize], thread: b & 128 != 0 }
    }
    fn docs(&mut self) -> Vec<Item> {
        let n = (self.u8() % 10) as usize;
        let mut items = vec![];
        for _ in 0..n {
            if !self.left() {
                break;
            }
            let head = self.u8();
            if head % 16 == 15 {
                items.push(Item::Fill { n: (self.u8() % 80) as u16 + 1, len: (self.u8() % 16) as u16, salt: head });
                continue;
            }
            let nv = (head % 5) as usize;
            let mut vals = vec![];
            for _ in 0..nv {
                let f = self.u8();
                vals.push(match f % 8 {
                    0 => (1u8, V::Str(self.string())),
                    1 => (3u8, V::U64(self.u64())),
                    2 => (4u8, V::I64(self.u64() as i64)),
                    3 => (5u8, V::F64(self.u64())),
                    4 => (6u8, V::Bool(f & 8 != 0)),
                    5 => (9u8, V::Bytes(self.string().into_bytes())),
                    6 => (11u8, self.object(1)),
                    _ => (12u8, self.object(1)),
                });
            }
            items.push(Item::Doc(DocSpec { vals, sk: 0, hidden: head >> 4, typed: head & 8 != 0 }));
        }
        items
    }
    fn spec(&mut self, depth: usize) -> StoreSpec {
        let cfg = self.cfg();
        let n = 1 + (self.u8() % 3) as usize;
        let mut segs = vec![];
        for _ in 0..n {
            let t = self.u8();
            segs.push(match t % 4 {
                2 if depth < 2 => Seg::Stack(Box::new(self.spec(depth + 1))),
                3 if depth < 2 => {
                    let src = Box::new(self.spec(depth + 1));
                    let nd = (self.u8() % 3) as usize;
                    Seg::Copy { src, dead: (0..nd).map(|_| self.u16()).collect() }
                }
                _ => Seg::Docs(self.docs()),
            });
            if !self.left() {
                break;
            }
        }
        StoreSpec { cfg, vecdoc: n % 2 == 0, segs }
    }
}
/// total decoding: every byte string is a valid case
pub fn fuzz_case(data: &[u8]) -> StoreCase {
    let mut b = Bytes { data, pos: 0 };
    let cache = b.u8() % 6;
    let no = (b.u8() % 10) as usize;
    let order = (0..no).map(|_| b.u16()).collect();
    let nd = (b.u8() % 4) as usize;
    let dead = (0..nd).map(|_| b.u16()).collect();
    let spec = b.spec(0);
    StoreCase { spec, reads: Reads { cache, order, dead } }
}
pub fn fuzz_one(data: &[u8]) -> Result<(), Failure> {
    let case = fuzz_case(data);
    let stats = std::cell::RefCell::new(Stats::default());
    let counting = std::cell::Cell::new(false);
    let known = Known::empty();
    let cx = Ctx::new(Tier::Quick, &known, true, &stats, &counting);
    run_guarded(&Store, &case, &cx)
}

#[allow(dead_code)]
fn _unused(_: &Path) {}

#[cfg(test)]
mod tests {
    use super::*;

    /// every byte string decodes into a case and the unchanged tree passes the oracle
    #[test]
    fn fuzz_one_is_total_and_clean() {
        let mut x = 0x9E3779B97F4A7C15u64;
        let mut shapes = std::collections::BTreeSet::new();
        for round in 0..3000usize {
            let len = match round % 5 {
                0 => round % 7,
                1 => 16 + round % 50,
                _ => 64 + round % 700,
            };
            let data: Vec<u8> = (0..len)
                .map(|_| {
                    x = x.wrapping_mul(6364136223846793005).wrapping_add(1442695040888963407);
                    (x >> 40) as u8
                })
                .collect();
            let case = fuzz_case(&data);
            shapes.insert(case.spec.segs.len() * 10 + case.spec.cfg.comp as usize);
            if let Err(f) = fuzz_one(&data) {
                panic!("round {round}: {} {}\n{}", f.sig, f.detail, serde_json::to_string(&case).unwrap());
            }
        }
        assert!(shapes.len() >= 8, "decoder reaches too few shapes: {shapes:?}");
        for data in [&b""[..], &[0u8; 64][..], &[255u8; 300][..]] {
            fuzz_one(data).unwrap();
        }
    }

    #[test]
    fn layout_parser_reads_a_store() {
        let case = fuzz_case(&[3u8; 200]);
        let _ = case;
        assert!(parse_layout(&[0u8; 10]).is_none());
    }
}
