//! C07 — the inverted index records exactly the terms, documents, frequencies, positions.
use std::collections::BTreeMap;
use std::net::Ipv6Addr;

use proptest::prelude::*;
use serde::{Deserialize, Serialize};
use serde_json::json;
use tantivy::indexer::NoMergePolicy;
use tantivy::postings::Postings;
use tantivy::schema::*;
use tantivy::{DateTime, DocSet, Index, ReloadPolicy, TantivyDocument, Term, TERMINATED};

use crate::engine::*;
use crate::scoring::norm_id;
use crate::util::{writer, WriterCfg};
use crate::{ensure, fail};

pub fn def() -> PropDef {
    PropDef {
        id: "C07",
        level: "exploration",
        rule: "text: one text field with record option in {Basic, WithFreqs, WithFreqsAndPositions}, fieldnorms on/off and tokenizer in {default, whitespace, raw}; documents are lists of values (multi-valued, empty values included) of words from a vocabulary with short words, words of 41/300/5000/65530/65531 bytes sharing long prefixes; document counts 0-300, 1000-2500 and 20000-60000 tiny documents (sparse terms: doc-id gaps needing many bits); mark words present in exactly 1/127/128/129/256/257/384 documents; a heavy document repeating one word 100-400 times (term frequency and position counts crossing 128). Oracle = a model term -> doc -> positions built with the documented rules (position = index of the token in its value + start of the value, each value starts one gap after the previous end; tokens longer than 40 bytes are removed by the default analyser and tokens longer than MAX_TOKEN_LEN are dropped, both leaving their position slot): the streamed dictionary equals the sorted model terms in byte order; per term doc_freq, the doc list, tf and positions match when read sequentially, through generated seek programs and through the block API; total_num_tokens and per-document field-norm ids (frozen table) match. typed: u64/i64/f64/date/bool/bytes/ip/facet/JSON fields: every model value is found through its Term with exactly the documents holding it, the dictionary has exactly the distinct values and streams them in value order (numeric order for numbers and dates, false<true, byte order for bytes/ip/facet ancestors). Non-trivial = the segment has a posting list crossing a 128 boundary, or a term >= 256 bytes, or a multi-valued positional field; distinct by hash(case).",
        assumptions: vec![
            "Term keys for typed and JSON fields are built with tantivy's public Term builders (only the key encoding is reused; order and postings are checked against the model)",
            "one segment per case (single commit, one indexing thread): doc ids are insertion order",
        ],
        subs: vec![Box::new(Text), Box::new(Typed), Box::new(TermTable)],
    }
}

const NSHORT: u16 = 30;
/// word id -> string
fn word(i: u16) -> String {
    match i {
        0..=29 => format!("t{i}"),
        30 => format!("{}a", "p".repeat(40)),    // 41 bytes: removed by the default analyser
        31 => format!("{}b", "p".repeat(40)),
        32 => format!("{}a", "q".repeat(300)),
        33 => format!("{}b", "q".repeat(300)),
        34 => format!("{}", "q".repeat(300)),
        35 => format!("{}a", "r".repeat(5000)),
        36 => format!("{}b", "r".repeat(5000)),
        37 => "s".repeat(65530),                 // MAX_TOKEN_LEN: kept
        38 => "s".repeat(65531),                 // dropped by the postings writer
        39 => "T0".to_string(),                  // upper case: folded by the default analyser only
        n => format!("m{}", n - 40),              // mark words
    }
}
const MARK0: u16 = 40;

#[derive(Clone, Debug, Serialize, Deserialize)]
pub struct TextCase {
    /// 0 default, 1 whitespace, 2 raw
    pub tok: u8,
    /// 0 basic, 1 freqs, 2 positions
    pub record: u8,
    pub norms: bool,
    /// doc -> values -> word ids
    pub docs: Vec<Vec<Vec<u16>>>,
    pub repeat: u16,
    /// mark word m<i> is appended (as an extra value) to the first marks[i] documents
    pub marks: Vec<u16>,
    /// (doc selector, word, count): that document gets one more value repeating `word` `count` times
    pub heavy: Option<(u16, u16, u16)>,
    /// (term selector, increasing targets as fractions of the doc count)
    pub seeks: Vec<(u16, Vec<u16>)>,
    /// add a value of a second text field (`aux`) after every value of `body` (interleaved field values)
    #[serde(default)]
    pub aux_every: bool,
    /// (doc selector, n): that document gets n more one-word values (more than 32 (field, value) entries)
    #[serde(default)]
    pub many_values: Option<(u16, u8)>,
    /// index sorted by a unique key (ascending?, salt of the insertion permutation): the documents are added in a
    /// generated order and the segment writer has to remap every posting list to the sort order
    #[serde(default)]
    pub sorted: Option<(bool, u16)>,
}

/// tokens of a value as the analyser emits them: (text, position within the value); None = slot without token
fn analyse(tok: u8, value: &[u16]) -> Vec<Option<String>> {
    match tok {
        2 => {
            // raw: the whole value is one token
            let s: Vec<String> = value.iter().map(|w| word(*w)).collect();
            let text = s.join(" ");
            if text.len() > 65530 {
                vec![None]
            } else {
                vec![Some(text)]
            }
        }
        1 => value.iter().map(|w| { let s = word(*w); if s.len() > 65530 { None } else { Some(s) } }).collect(),
        _ => value.iter().map(|w| { let s = word(*w); if s.len() > 40 { None } else { Some(s.to_lowercase()) } }).collect(),
    }
}

pub struct Text;
impl Sub for Text {
    type Case = TextCase;
    fn name(&self) -> &'static str {
        "text"
    }
    fn cases(&self, tier: Tier) -> u32 {
        tier.pick(6000, 60000)
    }
    fn max_shrink_iters(&self) -> u32 {
        800
    }
    fn strategy(&self, tier: Tier) -> BoxedStrategy<TextCase> {
        let w = prop_oneof![10 => 0u16..3, 6 => 3u16..12, 3 => 12u16..NSHORT, 1 => 30u16..37, 1 => Just(39u16)];
        let wrare = prop_oneof![20 => 0u16..NSHORT, 1 => 37u16..39];
        let value = prop::collection::vec(w, 0..9);
        let doc = prop::collection::vec(value, 0..4);
        let tiny_doc = prop::collection::vec(prop::collection::vec(wrare, 0..2), 0..2);
        let big_rep = tier.pick(220u16, 600);
        let size = prop_oneof![
            8 => (prop::collection::vec(doc.clone(), 0..60), Just(1u16)),
            4 => (prop::collection::vec(doc.clone(), 40..70), 3u16..7),
            2 => (prop::collection::vec(doc, 50..60), 20u16..45),
            1 => (prop::collection::vec(tiny_doc, 100..101), (big_rep..big_rep + 1)),
        ];
        (
            0u8..3,
            0u8..3,
            any::<bool>(),
            size,
            prop::collection::vec(prop_oneof![2 => Just(0u16), 1 => Just(1u16), 2 => Just(127u16), 3 => Just(128u16), 3 => Just(129u16), 1 => Just(256u16), 1 => Just(257u16), 1 => Just(384u16), 1 => Just(5000u16), 2 => Just(u16::MAX)], 3..4),
            prop::option::weighted(0.4, (any::<u16>(), 0u16..6, prop_oneof![1 => 100u16..140, 1 => 250u16..400])),
            prop::collection::vec((any::<u16>(), prop::collection::vec(any::<u16>(), 1..14)), 0..8),
            prop::bool::weighted(0.4),
            prop::option::weighted(0.3, (any::<u16>(), 14u8..45)),
            prop::option::weighted(0.3, (any::<bool>(), any::<u16>())),
        )
            .prop_map(|(tok, record, norms, (docs, repeat), marks, heavy, seeks, aux_every, many_values, sorted)| TextCase { tok, record, norms, docs, repeat, marks, heavy, seeks, aux_every, many_values, sorted })
            .boxed()
    }
    fn mandatory_labels(&self, _t: Tier) -> Vec<&'static str> {
        vec![
            "list_len=128", "list_len=129", "list_len=127", "list_len>256", "list_len>20000", "tf>128", "term>=256B", "term=65530B", "token_dropped>MAX", "token_removed>40B", "multi_valued_positions", "empty_value",
            "tok:default", "tok:whitespace", "tok:raw", "record:basic", "record:freqs", "record:positions", "norms_off", "docs>=20000", "seek_crosses_block", "block_api", "interleaved_fields", "doc_with>32_field_values", "sorted_index",
        ]
    }
    fn run(&self, c: &TextCase, cx: &Ctx) -> CaseResult {
        let record = match c.record {
            0 => IndexRecordOption::Basic,
            1 => IndexRecordOption::WithFreqs,
            _ => IndexRecordOption::WithFreqsAndPositions,
        };
        let tokenizer = match c.tok {
            0 => "default",
            1 => "whitespace",
            _ => "raw",
        };
        let mut sb = Schema::builder();
        let body = sb.add_text_field("body", TextOptions::default().set_indexing_options(TextFieldIndexing::default().set_tokenizer(tokenizer).set_index_option(record).set_fieldnorms(c.norms)));
        let aux = sb.add_text_field("aux", TextOptions::default().set_indexing_options(TextFieldIndexing::default().set_tokenizer("raw").set_index_option(IndexRecordOption::WithFreqsAndPositions)));
        let sk = sb.add_u64_field("sk", FAST);
        let settings = tantivy::IndexSettings {
            sort_by_field: c.sorted.map(|(asc, _)| tantivy::IndexSortByField { field: "sk".into(), order: if asc { tantivy::Order::Asc } else { tantivy::Order::Desc } }),
            ..Default::default()
        };
        let index = Index::builder().schema(sb.build()).settings(settings).create_in_ram().or_fail("INFRA:create")?;
        let wr = writer(&index, WriterCfg { table_bits: 12, ..Default::default() }).or_fail("INFRA:writer")?;
        wr.set_merge_policy(Box::new(NoMergePolicy));
        let mut wr = wr;
        // materialise the documents
        let mut docs: Vec<Vec<Vec<u16>>> = vec![];
        for _ in 0..c.repeat.max(1) {
            docs.extend(c.docs.iter().cloned());
        }
        for (mi, count) in c.marks.iter().enumerate() {
            let n = (*count as usize).min(docs.len());
            for d in docs.iter_mut().take(n) {
                d.push(vec![MARK0 + mi as u16]);
            }
        }
        if let (Some((sel, w, count)), false) = (c.heavy, docs.is_empty()) {
            let i = idx(sel, docs.len());
            docs[i].push(vec![w; count as usize]);
        }
        if let (Some((sel, n)), false) = (c.many_values, docs.is_empty()) {
            let i = idx(sel, docs.len());
            for k in 0..n {
                docs[i].push(vec![(k % 5) as u16]);
            }
        }
        if docs.is_empty() {
            cx.label("empty_corpus");
            return Ok(());
        }
        // model of the aux field: doc -> positions of the single term "x" (k-th value at position 2k)
        let mut aux_model: BTreeMap<u32, Vec<u32>> = BTreeMap::new();
        let mut max_entries = 0usize;
        // model: term -> doc -> positions ; tokens per doc
        let mut model: BTreeMap<Vec<u8>, BTreeMap<u32, Vec<u32>>> = BTreeMap::new();
        let mut ntokens: Vec<u32> = vec![0; docs.len()];
        let (mut dropped_max, mut removed_40, mut multi_valued, mut empty_value) = (false, false, false, false);
        // the model numbers the documents in sort order; with a sorted index they are *added* in a permuted order
        let ndocs = docs.len();
        let mut built: Vec<Option<TantivyDocument>> = Vec::with_capacity(ndocs);
        for (d, values) in docs.iter().enumerate() {
            let mut doc = TantivyDocument::new();
            doc.add_u64(sk, match c.sorted {
                Some((false, _)) => (ndocs - 1 - d) as u64,
                _ => d as u64,
            });
            let mut end = 0u32;
            if values.iter().filter(|v| !v.is_empty()).count() >= 2 {
                multi_valued = true;
            }
            max_entries = max_entries.max(values.len() * if c.aux_every { 2 } else { 1 });
            for (vi, v) in values.iter().enumerate() {
                let text: Vec<String> = v.iter().map(|w| word(*w)).collect();
                doc.add_text(body, text.join(" "));
                if c.aux_every {
                    doc.add_text(aux, "x");
                    aux_model.entry(d as u32).or_default().push(2 * vi as u32);
                }
                if v.is_empty() {
                    empty_value = true;
                }
                let toks = analyse(c.tok, v);
                // the raw tokenizer emits one (possibly empty) token even for an empty value
                let toks = if c.tok == 2 && v.is_empty() { vec![Some(String::new())] } else { toks };
                let start = end;
                let mut e = end;
                for (i, t) in toks.iter().enumerate() {
                    match t {
                        Some(t) => {
                            model.entry(t.clone().into_bytes()).or_default().entry(d as u32).or_default().push(start + i as u32);
                            ntokens[d] += 1;
                            e = e.max(start + i as u32 + 1);
                        }
                        None => {
                            let raw_len = if c.tok == 2 { text.join(" ").len() } else { word(v[i]).len() };
                            if raw_len > 65530 {
                                dropped_max = true;
                            } else {
                                removed_40 = true;
                            }
                        }
                    }
                }
                end = e + 1;
            }
            built.push(Some(doc));
        }
        let mut order: Vec<usize> = (0..ndocs).collect();
        if let Some((_, salt)) = c.sorted {
            order.sort_by_key(|i| mix(salt as u64, *i as u64));
            cx.label("sorted_index");
        }
        for i in order {
            wr.add_document(built[i].take().unwrap()).or_fail("add_failed")?;
        }
        drop(built);
        wr.commit().or_fail("commit_failed")?;
        let reader: tantivy::IndexReader = index.reader_builder().reload_policy(ReloadPolicy::Manual).try_into().or_fail("reader_open_failed")?;
        let searcher = reader.searcher();
        ensure!(searcher.segment_readers().len() == 1, "INFRA:expected_one_segment", "{}", searcher.segment_readers().len());
        let seg = searcher.segment_reader(0);
        let inv = seg.inverted_index(body).or_fail("inverted_index_failed")?;
        // 1. dictionary == sorted model terms
        {
            let mut st = inv.terms().stream().or_fail("term_stream_failed")?;
            let mut it = model.iter();
            let mut n = 0usize;
            while st.advance() {
                match it.next() {
                    None => fail!("dictionary_has_extra_term", "term #{n} {:?} is not produced by analysing the documents", String::from_utf8_lossy(&st.key()[..st.key().len().min(60)])),
                    Some((k, postings)) => {
                        ensure!(st.key() == k.as_slice(), "dictionary_term_differs", "term #{n}: dictionary has {:?} ({} bytes), model {:?} ({} bytes)", String::from_utf8_lossy(&st.key()[..st.key().len().min(60)]), st.key().len(), String::from_utf8_lossy(&k[..k.len().min(60)]), k.len());
                        ensure!(st.value().doc_freq as usize == postings.len(), "doc_freq_differs", "term {:?}: doc_freq {} model {}", String::from_utf8_lossy(&k[..k.len().min(60)]), st.value().doc_freq, postings.len());
                    }
                }
                n += 1;
            }
            ensure!(it.next().is_none(), "dictionary_misses_term", "dictionary has {n} terms, model {}", model.len());
            ensure!(inv.terms().num_terms() == model.len(), "num_terms_differs", "{} vs {}", inv.terms().num_terms(), model.len());
        }
        // 2. statistics
        let total: u64 = ntokens.iter().map(|x| *x as u64).sum();
        ensure!(inv.total_num_tokens() == total, "total_num_tokens_differs", "{} vs model {total}", inv.total_num_tokens());
        if c.norms {
            let fr = seg.get_fieldnorms_reader(body).or_fail("fieldnorms_failed")?;
            for (d, n) in ntokens.iter().enumerate() {
                ensure!(fr.fieldnorm_id(d as u32) == norm_id(*n), "fieldnorm_id_differs", "doc {d} with {n} tokens: id {} expected {}", fr.fieldnorm_id(d as u32), norm_id(*n));
            }
        }
        // 3. postings, sequentially and through the block API
        let mut positions = vec![];
        let (mut max_len, mut max_tf, mut max_term) = (0usize, 0usize, 0usize);
        let mut reused_cursor: Option<tantivy::postings::BlockSegmentPostings> = None;
        for (t, pm) in &model {
            cx.evals(1);
            max_len = max_len.max(pm.len());
            max_term = max_term.max(t.len());
            let term = Term::from_field_text(body, std::str::from_utf8(t).unwrap());
            let name = || String::from_utf8_lossy(&t[..t.len().min(40)]).to_string();
            ensure!(inv.doc_freq(&term).or_fail("doc_freq_failed")? as usize == pm.len(), "doc_freq_differs", "term {}: {} vs {}", name(), inv.doc_freq(&term).unwrap_or(0), pm.len());
            let mut p = inv.read_postings(&term, record).or_fail("read_postings_failed")?.ok_or_else(|| Failure::new("term_not_found", name()))?;
            for (d, ps) in pm {
                ensure!(p.doc() == *d, "posting_doc_differs", "term {}: got doc {} expected {d}", name(), p.doc());
                max_tf = max_tf.max(ps.len());
                if c.record >= 1 {
                    ensure!(p.term_freq() as usize == ps.len(), "term_freq_differs", "term {} doc {d}: tf {} expected {}", name(), p.term_freq(), ps.len());
                }
                if c.record >= 2 {
                    p.positions(&mut positions);
                    ensure!(&positions == ps, "positions_differ", "term {} doc {d}: {:?} expected {:?}", name(), &positions[..positions.len().min(20)], &ps[..ps.len().min(20)]);
                }
                p.advance();
            }
            ensure!(p.doc() == TERMINATED, "posting_list_too_long", "term {}: extra doc {}", name(), p.doc());
            ensure!(p.advance() == TERMINATED, "terminated_not_sticky", "term {}", name());
            // block API
            let mut bp = inv.read_block_postings(&term, record).or_fail("read_block_postings_failed")?.ok_or_else(|| Failure::new("term_not_found", name()))?;
            let expected_docs: Vec<u32> = pm.keys().cloned().collect();
            let mut got_docs: Vec<u32> = vec![];
            let mut got_freqs: Vec<u32> = vec![];
            loop {
                let n = bp.block_len();
                if n == 0 {
                    break;
                }
                got_docs.extend_from_slice(&bp.docs()[..n]);
                if c.record >= 1 {
                    got_freqs.extend_from_slice(&bp.freqs()[..n]);
                }
                bp.advance();
            }
            ensure!(got_docs == expected_docs, "block_api_docs_differ", "term {}: {} docs via blocks, expected {}", name(), got_docs.len(), expected_docs.len());
            // ... and once more through one block cursor that is reused from term to term (reset onto this term after it
            // walked the previous term's list to its end)
            {
                let ti = inv.get_term_info(&term).or_fail("get_term_info_failed")?.ok_or_else(|| Failure::new("term_not_found", name()))?;
                match reused_cursor.as_mut() {
                    None => reused_cursor = Some(inv.read_block_postings_from_terminfo(&ti, record).or_fail("read_block_postings_failed")?),
                    Some(cur) => inv.reset_block_postings_from_terminfo(&ti, cur).or_fail("reset_block_postings_failed")?,
                }
                let cur = reused_cursor.as_mut().unwrap();
                let mut again: Vec<u32> = vec![];
                loop {
                    let n = cur.block_len();
                    if n == 0 {
                        break;
                    }
                    again.extend_from_slice(&cur.docs()[..n]);
                    cur.advance();
                }
                let pos = again.iter().zip(expected_docs.iter()).position(|(a, b)| a != b).unwrap_or(again.len().min(expected_docs.len()));
                ensure!(again == expected_docs, "reused_block_cursor_docs_differ", "term {}: a block cursor reset onto this term yields {} docs, expected {}; first difference at #{pos}: {:?} vs {:?}", name(), again.len(), expected_docs.len(), again.get(pos), expected_docs.get(pos));
            }
            if c.record >= 1 {
                let exp_f: Vec<u32> = pm.values().map(|ps| ps.len() as u32).collect();
                ensure!(got_freqs == exp_f, "block_api_freqs_differ", "term {}", name());
            }
        }
        cx.label("block_api");
        // 3b. the interleaved second field: term "x" in every document that has values, k-th value at position 2k
        if c.aux_every {
            let ainv = seg.inverted_index(aux).or_fail("inverted_index_failed")?;
            let term = Term::from_field_text(aux, "x");
            match ainv.read_postings(&term, IndexRecordOption::WithFreqsAndPositions).or_fail("read_postings_failed")? {
                None => ensure!(aux_model.is_empty(), "aux_term_missing", "{} documents have aux values", aux_model.len()),
                Some(mut p) => {
                    for (d, ps) in &aux_model {
                        ensure!(p.doc() == *d, "aux_posting_doc_differs", "got doc {} expected {d}", p.doc());
                        p.positions(&mut positions);
                        ensure!(&positions == ps, "aux_positions_differ", "doc {d}: {:?} expected {:?} (values of two fields were added interleaved)", &positions[..positions.len().min(24)], &ps[..ps.len().min(24)]);
                        p.advance();
                    }
                    ensure!(p.doc() == TERMINATED, "aux_posting_list_too_long", "");
                }
            }
            cx.label("interleaved_fields");
        }
        cx.label_if(max_entries > 32, "doc_with>32_field_values");
        // 4. seek programs
        let terms: Vec<&Vec<u8>> = model.keys().collect();
        let mut crossed = false;
        for (sel, targets) in &c.seeks {
            if terms.is_empty() {
                break;
            }
            // bias towards long lists: choose among the terms sorted by list length
            let mut by_len: Vec<&Vec<u8>> = terms.clone();
            by_len.sort_by_key(|t| std::cmp::Reverse(model[*t].len()));
            let t = by_len[idx(*sel, by_len.len().min(8))];
            let pm = &model[t];
            let term = Term::from_field_text(body, std::str::from_utf8(t).unwrap());
            let mut p = inv.read_postings(&term, record).or_fail("read_postings_failed")?.unwrap();
            let mut ts: Vec<u32> = targets.iter().map(|x| idx(*x, docs.len() + 2) as u32).collect();
            ts.sort();
            for tg in ts {
                if tg < p.doc() {
                    continue;
                }
                let before = p.doc();
                let got = p.seek(tg);
                let exp = pm.range(tg..).next().map(|x| *x.0).unwrap_or(TERMINATED);
                ensure!(got == exp, "seek_lands_on_wrong_doc", "term {:?} (list of {}): seek({tg}) from {before} = {got}, expected {exp}", String::from_utf8_lossy(&t[..t.len().min(30)]), pm.len());
                ensure!(p.doc() == got, "doc_differs_from_seek_result", "");
                if got != TERMINATED {
                    let ps = &pm[&got];
                    if c.record >= 1 {
                        ensure!(p.term_freq() as usize == ps.len(), "term_freq_differs_after_seek", "seek({tg}) -> {got}: tf {} expected {}", p.term_freq(), ps.len());
                    }
                    if c.record >= 2 {
                        p.positions(&mut positions);
                        ensure!(&positions == ps, "positions_differ_after_seek", "seek({tg}) -> {got}");
                    }
                    let rank_before = pm.range(..before.min(got)).count();
                    let rank_after = pm.range(..got).count();
                    if rank_before / 128 != rank_after / 128 {
                        crossed = true;
                    }
                } else {
                    break;
                }
            }
        }
        cx.label_if(crossed, "seek_crosses_block");
        let lens: Vec<usize> = model.values().map(|m| m.len()).collect();
        cx.label_if(lens.contains(&127), "list_len=127");
        cx.label_if(lens.contains(&128), "list_len=128");
        cx.label_if(lens.contains(&129), "list_len=129");
        cx.label_if(max_len > 256, "list_len>256");
        cx.label_if(max_len > 20000, "list_len>20000");
        cx.label_if(max_tf > 128, "tf>128");
        cx.label_if(max_term >= 256, "term>=256B");
        cx.label_if(max_term == 65530, "term=65530B");
        cx.label_if(dropped_max, "token_dropped>MAX");
        cx.label_if(removed_40, "token_removed>40B");
        cx.label_if(multi_valued && c.record == 2, "multi_valued_positions");
        cx.label_if(empty_value, "empty_value");
        cx.label(&format!("tok:{tokenizer}"));
        cx.label(match c.record { 0 => "record:basic", 1 => "record:freqs", _ => "record:positions" });
        cx.label_if(!c.norms, "norms_off");
        cx.label_if(docs.len() >= 20000, "docs>=20000");
        if max_len > 128 || max_term >= 256 || (multi_valued && c.record == 2) {
            cx.nontrivial(fp(c));
        }
        cx.sample(|| json!({"sub":"text","tok":tokenizer,"record":c.record,"norms":c.norms,"docs":docs.len(),"terms":model.len(),"longest_list":max_len,"max_tf":max_tf,"first_doc":c.docs.first(),"marks":c.marks,"heavy":c.heavy}));
        Ok(())
    }
}

// ------------------------------------------------------------------------------------------------
#[derive(Clone, Debug, Serialize, Deserialize)]
pub struct TDoc {
    pub u: Vec<u16>,
    pub i: Vec<i16>,
    pub f: Vec<i16>,
    pub date: Vec<i16>,
    pub b: Vec<bool>,
    pub bytes: Vec<Vec<u8>>,
    pub ip: Vec<u16>,
    /// facet path as segments (small alphabet)
    pub facet: Vec<Vec<u8>>,
    /// JSON: (key selector, value kind selector, value)
    pub json: Vec<(u8, u8, i16)>,
    /// further JSON values of the same field (each an object {k<key>: "w<v> w<v+1>"}): positions of a path continue
    /// across the values of one document
    #[serde(default)]
    pub json_more: Vec<(u8, u8)>,
    /// one more JSON value {p<n>: "w1 w2"}: hundreds of distinct paths in one segment
    #[serde(default)]
    pub json_wide: Option<u16>,
    /// a second such value in the same document
    #[serde(default)]
    pub json_wide2: Option<u16>,
}
#[derive(Clone, Debug, Serialize, Deserialize)]
pub struct TypedCase {
    pub docs: Vec<TDoc>,
    pub repeat: u8,
}

fn u_of(x: u16) -> u64 {
    match x {
        0 => 0,
        1 => u64::MAX,
        2 => i64::MAX as u64,
        3 => i64::MAX as u64 + 1,
        v => v as u64 * 1_000_003,
    }
}
fn i_of(x: i16) -> i64 {
    match x {
        i16::MIN => i64::MIN,
        i16::MAX => i64::MAX,
        v => v as i64 * 7,
    }
}
fn f_of(x: i16) -> f64 {
    match x {
        i16::MIN => f64::NEG_INFINITY,
        i16::MAX => f64::INFINITY,
        0 => 0.0,
        1 => -0.0,
        2 => f64::MIN_POSITIVE,
        v => v as f64 * 0.37,
    }
}
fn ip_of(x: u16) -> Ipv6Addr {
    if x % 3 == 0 {
        std::net::Ipv4Addr::new(10, 1, (x >> 8) as u8, x as u8).to_ipv6_mapped()
    } else {
        Ipv6Addr::new(0x2001, 0xdb8, x, 0, 0, 0, x ^ 0x55, 1)
    }
}

pub struct Typed;
impl Sub for Typed {
    type Case = TypedCase;
    fn name(&self) -> &'static str {
        "typed"
    }
    fn cases(&self, tier: Tier) -> u32 {
        tier.pick(8000, 80000)
    }
    fn max_shrink_iters(&self) -> u32 {
        800
    }
    fn strategy(&self, _tier: Tier) -> BoxedStrategy<TypedCase> {
        let doc = (
            prop::collection::vec(prop_oneof![3 => 0u16..8, 1 => any::<u16>()], 0..3),
            prop::collection::vec(prop_oneof![3 => -4i16..4, 1 => any::<i16>()], 0..3),
            prop::collection::vec(prop_oneof![3 => -4i16..6, 1 => any::<i16>()], 0..3),
            prop::collection::vec(prop_oneof![3 => -4i16..4, 1 => any::<i16>()], 0..2),
            prop::collection::vec(any::<bool>(), 0..2),
            prop::collection::vec(prop::collection::vec(prop_oneof![Just(0u8), Just(1u8), Just(255u8), any::<u8>()], 0..5), 0..3),
            prop::collection::vec(prop_oneof![3 => 0u16..6, 1 => any::<u16>()], 0..2),
            prop::collection::vec(prop::collection::vec(0u8..3, 1..4), 0..3),
            prop::collection::vec((0u8..4, 0u8..4, -3i16..4), 0..4),
            prop::collection::vec((0u8..3, 0u8..4), 0..4),
        )
            .prop_map(|(u, i, f, date, b, bytes, ip, facet, json, json_more)| TDoc { u, i, f, date, b, bytes, ip, facet, json, json_more, json_wide: None, json_wide2: None });
        let generic = (prop::collection::vec(doc, 0..50), prop_oneof![3 => Just(1u8), 1 => 4u8..8]).prop_map(|(docs, repeat)| TypedCase { docs, repeat });
        // hundreds of distinct JSON paths in one segment, and documents holding text under several of them - among them
        // paths that were first seen 256, 512, ... paths apart
        let wide = (260u16..700, prop::collection::vec((any::<u16>(), any::<u16>(), 0u8..4), 1..6)).prop_map(|(n, pairs)| {
            let empty = || TDoc { u: vec![], i: vec![], f: vec![], date: vec![], b: vec![], bytes: vec![], ip: vec![], facet: vec![], json: vec![], json_more: vec![], json_wide: None, json_wide2: None };
            let mut docs: Vec<TDoc> = (0..n).map(|k| TDoc { json_wide: Some(k), ..empty() }).collect();
            for (a, d, v) in pairs {
                // a document with text under path p<a> and under the path seen 256 * d paths later (or earlier)
                let a = a % n;
                let b = ((a as u32 + 256 * (1 + d as u32 % 2)) % n as u32) as u16;
                docs.push(TDoc { json_wide: Some(a), json_wide2: Some(b), ..empty() });
                docs.push(TDoc { json_wide: Some(b), json_wide2: Some(a), json_more: vec![(v, v)], ..empty() });
                docs.push(TDoc { json_wide: Some(a), json: vec![(v, 2, 3)], ..empty() });
            }
            TypedCase { docs, repeat: 1 }
        });
        prop_oneof![30 => generic, 1 => wide].boxed()
    }
    fn mandatory_labels(&self, _t: Tier) -> Vec<&'static str> {
        vec!["u64", "i64", "f64", "date", "bool", "bytes", "ip", "facet", "json", "json_multi_value_positions", "json_more_than_256_paths", "list_len>128", "extreme_values"]
    }
    fn run(&self, c: &TypedCase, cx: &Ctx) -> CaseResult {
        let mut sb = Schema::builder();
        let fu = sb.add_u64_field("u", INDEXED);
        let fi = sb.add_i64_field("i", INDEXED);
        let ff = sb.add_f64_field("f", INDEXED);
        let fd = sb.add_date_field("d", INDEXED);
        let fb = sb.add_bool_field("b", INDEXED);
        let fbytes = sb.add_bytes_field("bytes", INDEXED);
        let fip = sb.add_ip_addr_field("ip", INDEXED);
        let ffacet = sb.add_facet_field("facet", FacetOptions::default());
        let fjson = sb.add_json_field("json", TEXT);
        let schema = sb.build();
        let index = Index::create_in_ram(schema);
        let wr = writer(&index, WriterCfg::default()).or_fail("INFRA:writer")?;
        wr.set_merge_policy(Box::new(NoMergePolicy));
        let mut wr = wr;
        let mut docs: Vec<&TDoc> = vec![];
        for _ in 0..c.repeat.max(1) {
            docs.extend(c.docs.iter());
        }
        if docs.is_empty() {
            return Ok(());
        }
        // model: (field tag, order key) -> (Term, docs)
        #[derive(PartialEq, Eq, PartialOrd, Ord, Clone, Debug)]
        enum OK {
            U(u64),
            I(i64),
            F(u64),
            B(bool),
            Bytes(Vec<u8>),
            Ip(u128),
            Facet(Vec<u8>),
        }
        let mut model: BTreeMap<(u8, OK), (Term, Vec<u32>)> = BTreeMap::new();
        let mut json_model: BTreeMap<Vec<u8>, (Term, Vec<u32>)> = BTreeMap::new();
        // (term bytes) -> doc -> positions, for the string leaves of the additional JSON values
        let mut json_pos_model: BTreeMap<Vec<u8>, (Term, BTreeMap<u32, Vec<u32>>)> = BTreeMap::new();
        let mut wide_paths = false;
        let fkey = |x: f64| -> u64 {
            // order-preserving map of f64 (independent re-implementation)
            let b = x.to_bits();
            if b >> 63 == 0 {
                b | (1 << 63)
            } else {
                !b
            }
        };
        let mut push = |m: &mut BTreeMap<(u8, OK), (Term, Vec<u32>)>, k: (u8, OK), t: Term, d: u32| {
            let e = m.entry(k).or_insert_with(|| (t, vec![]));
            if e.1.last() != Some(&d) {
                e.1.push(d);
            }
        };
        for (d, td) in docs.iter().enumerate() {
            let d32 = d as u32;
            let mut doc = TantivyDocument::new();
            for x in &td.u {
                doc.add_u64(fu, u_of(*x));
                push(&mut model, (0, OK::U(u_of(*x))), Term::from_field_u64(fu, u_of(*x)), d32);
            }
            for x in &td.i {
                doc.add_i64(fi, i_of(*x));
                push(&mut model, (1, OK::I(i_of(*x))), Term::from_field_i64(fi, i_of(*x)), d32);
            }
            for x in &td.f {
                doc.add_f64(ff, f_of(*x));
                push(&mut model, (2, OK::F(fkey(f_of(*x)))), Term::from_field_f64(ff, f_of(*x)), d32);
            }
            for x in &td.date {
                let dt = DateTime::from_timestamp_secs(i_of(*x).clamp(-9_000_000_000, 9_000_000_000));
                doc.add_date(fd, dt);
                push(&mut model, (3, OK::I(dt.into_timestamp_secs())), Term::from_field_date(fd, dt), d32);
            }
            for x in &td.b {
                doc.add_bool(fb, *x);
                push(&mut model, (4, OK::B(*x)), Term::from_field_bool(fb, *x), d32);
            }
            for x in &td.bytes {
                doc.add_bytes(fbytes, x);
                push(&mut model, (5, OK::Bytes(x.clone())), Term::from_field_bytes(fbytes, x), d32);
            }
            for x in &td.ip {
                doc.add_ip_addr(fip, ip_of(*x));
                push(&mut model, (6, OK::Ip(u128::from(ip_of(*x)))), Term::from_field_ip_addr(fip, ip_of(*x)), d32);
            }
            for path in &td.facet {
                let segs: Vec<String> = path.iter().map(|s| format!("f{s}")).collect();
                let facet = Facet::from_path(segs.iter());
                doc.add_facet(ffacet, facet.clone());
                // every ancestor prefix, the root included, is a term
                for k in 0..=segs.len() {
                    let anc = Facet::from_path(segs[..k].iter());
                    push(&mut model, (7, OK::Facet(anc.encoded_str().as_bytes().to_vec())), Term::from_facet(ffacet, &anc), d32);
                }
            }
            if !td.json.is_empty() || td.json_wide.is_some() || td.json_wide2.is_some() {
                let mut obj = serde_json::Map::new();
                for (k, kind, v) in &td.json {
                    let key = format!("k{k}");
                    let (val, term): (serde_json::Value, Term) = match kind {
                        0 => {
                            let mut t = Term::from_field_json_path(fjson, &key, false);
                            t.append_type_and_fast_value(*v as i64);
                            (json!(*v as i64), t)
                        }
                        1 => {
                            let mut t = Term::from_field_json_path(fjson, &key, false);
                            t.append_type_and_fast_value(*v >= 0);
                            (json!(*v >= 0), t)
                        }
                        2 => {
                            let s = format!("w{}", v.unsigned_abs());
                            let mut t = Term::from_field_json_path(fjson, &key, false);
                            t.append_type_and_str(&s);
                            (json!(s), t)
                        }
                        _ => {
                            let x = *v as f64 + 0.5;
                            let mut t = Term::from_field_json_path(fjson, &key, false);
                            t.append_type_and_fast_value(x);
                            (json!(x), t)
                        }
                    };
                    // a key may occur once per object: later entries overwrite earlier ones
                    obj.insert(key.clone(), val);
                    let _ = term;
                }
                // model from the final object
                for (key, val) in &obj {
                    let mut t = Term::from_field_json_path(fjson, key, false);
                    match val {
                        serde_json::Value::Number(n) if n.is_i64() => t.append_type_and_fast_value(n.as_i64().unwrap()),
                        serde_json::Value::Number(n) => t.append_type_and_fast_value(n.as_f64().unwrap()),
                        serde_json::Value::Bool(b) => t.append_type_and_fast_value(*b),
                        serde_json::Value::String(s) => t.append_type_and_str(s),
                        _ => {}
                    }
                    let e = json_model.entry(t.serialized_value_bytes().to_vec()).or_insert_with(|| (t.clone(), vec![]));
                    if e.1.last() != Some(&d32) {
                        e.1.push(d32);
                    }
                }
                // positions: per path, every string value occupies [end, end + tokens) and the next value of that path
                // starts one gap later
                let mut path_end: BTreeMap<String, u32> = BTreeMap::new();
                let note = |json_pos_model: &mut BTreeMap<Vec<u8>, (Term, BTreeMap<u32, Vec<u32>>)>, path_end: &mut BTreeMap<String, u32>, key: &str, words: &[String]| {
                    let start = *path_end.get(key).unwrap_or(&0);
                    for (i, w) in words.iter().enumerate() {
                        let mut t = Term::from_field_json_path(fjson, key, false);
                        t.append_type_and_str(w);
                        json_pos_model.entry(t.serialized_value_bytes().to_vec()).or_insert_with(|| (t.clone(), BTreeMap::new())).1.entry(d32).or_default().push(start + i as u32);
                    }
                    path_end.insert(key.to_string(), start + words.len() as u32 + 1);
                };
                for (key, val) in &obj {
                    if let serde_json::Value::String(sv) = val {
                        note(&mut json_pos_model, &mut path_end, key, &[sv.clone()]);
                    }
                }
                doc.add_object(fjson, obj.into_iter().map(|(k, v)| (k, OwnedValue::from(v))).collect());
                for n in td.json_wide.iter().chain(td.json_wide2.iter().filter(|x| Some(**x) != td.json_wide)) {
                    let key = format!("p{n}");
                    let words = vec!["w1".to_string(), "w2".to_string()];
                    note(&mut json_pos_model, &mut path_end, &key, &words);
                    for w in &words {
                        let mut t = Term::from_field_json_path(fjson, &key, false);
                        t.append_type_and_str(w);
                        let e = json_model.entry(t.serialized_value_bytes().to_vec()).or_insert_with(|| (t.clone(), vec![]));
                        if e.1.last() != Some(&d32) {
                            e.1.push(d32);
                        }
                    }
                    let mut o2 = serde_json::Map::new();
                    o2.insert(key, serde_json::Value::String(words.join(" ")));
                    doc.add_object(fjson, o2.into_iter().map(|(k, v)| (k, OwnedValue::from(v))).collect());
                    wide_paths = true;
                }
                for (k, v) in &td.json_more {
                    let key = format!("k{k}");
                    let words = vec![format!("w{v}"), format!("w{}", v + 1)];
                    note(&mut json_pos_model, &mut path_end, &key, &words);
                    for w in &words {
                        let mut t = Term::from_field_json_path(fjson, &key, false);
                        t.append_type_and_str(w);
                        let e = json_model.entry(t.serialized_value_bytes().to_vec()).or_insert_with(|| (t.clone(), vec![]));
                        if e.1.last() != Some(&d32) {
                            e.1.push(d32);
                        }
                    }
                    let mut o2 = serde_json::Map::new();
                    o2.insert(key, serde_json::Value::String(words.join(" ")));
                    doc.add_object(fjson, o2.into_iter().map(|(k, v)| (k, OwnedValue::from(v))).collect());
                }
            }
            wr.add_document(doc).or_fail("add_failed")?;
        }
        wr.commit().or_fail("commit_failed")?;
        let reader: tantivy::IndexReader = index.reader_builder().reload_policy(ReloadPolicy::Manual).try_into().or_fail("reader_open_failed")?;
        let searcher = reader.searcher();
        ensure!(searcher.segment_readers().len() == 1, "INFRA:expected_one_segment", "");
        let seg = searcher.segment_reader(0);
        let fields = [(0u8, fu, "u64"), (1, fi, "i64"), (2, ff, "f64"), (3, fd, "date"), (4, fb, "bool"), (5, fbytes, "bytes"), (6, fip, "ip"), (7, ffacet, "facet")];
        let mut longest = 0usize;
        for (tag, field, name) in fields {
            let inv = seg.inverted_index(field).or_fail("inverted_index_failed")?;
            let entries: Vec<(&(u8, OK), &(Term, Vec<u32>))> = model.iter().filter(|(k, _)| k.0 == tag).collect();
            if !entries.is_empty() {
                cx.label(name);
            }
            // dictionary streams exactly the distinct values, in value order
            let mut st = inv.terms().stream().or_fail("term_stream_failed")?;
            let mut n = 0usize;
            while st.advance() {
                let Some((k, (term, ds))) = entries.get(n) else { fail!("dictionary_has_extra_term", "field {name}: more than {} terms", entries.len()) };
                ensure!(st.key() == term.serialized_value_bytes(), "typed_term_order_or_encoding", "field {name}: dictionary entry #{n} is not the {n}-th smallest value {k:?}");
                ensure!(st.value().doc_freq as usize == ds.len(), "doc_freq_differs", "field {name} value {k:?}: {} vs {}", st.value().doc_freq, ds.len());
                n += 1;
            }
            ensure!(n == entries.len(), "dictionary_misses_term", "field {name}: {n} terms, model {}", entries.len());
            for (k, (term, ds)) in entries {
                cx.evals(1);
                longest = longest.max(ds.len());
                let mut p = inv.read_postings(term, IndexRecordOption::Basic).or_fail("read_postings_failed")?.ok_or_else(|| Failure::new("typed_term_not_found", format!("field {name} value {k:?}")))?;
                for d in ds {
                    ensure!(p.doc() == *d, "posting_doc_differs", "field {name} value {k:?}: doc {} expected {d}", p.doc());
                    p.advance();
                }
                ensure!(p.doc() == TERMINATED, "posting_list_too_long", "field {name} value {k:?}");
            }
        }
        // JSON
        {
            let inv = seg.inverted_index(fjson).or_fail("inverted_index_failed")?;
            if !json_model.is_empty() {
                cx.label("json");
            }
            ensure!(inv.terms().num_terms() == json_model.len(), "json_num_terms_differs", "{} vs model {}", inv.terms().num_terms(), json_model.len());
            let mut st = inv.terms().stream().or_fail("term_stream_failed")?;
            let mut it = json_model.iter();
            while st.advance() {
                let Some((k, _)) = it.next() else { fail!("dictionary_has_extra_term", "json") };
                ensure!(st.key() == k.as_slice(), "json_term_differs", "dictionary {:?} model {:?}", st.key(), k);
            }
            for (k, (term, ds)) in &json_model {
                cx.evals(1);
                let mut p = inv.read_postings(term, IndexRecordOption::Basic).or_fail("read_postings_failed")?.ok_or_else(|| Failure::new("json_term_not_found", format!("{k:?}")))?;
                for d in ds {
                    ensure!(p.doc() == *d, "posting_doc_differs", "json {k:?}: doc {} expected {d}", p.doc());
                    p.advance();
                }
                ensure!(p.doc() == TERMINATED, "posting_list_too_long", "json {k:?}");
            }
        }
        // JSON positions across several values of one document
        {
            let inv = seg.inverted_index(fjson).or_fail("inverted_index_failed")?;
            let mut positions = vec![];
            for (k, (term, per_doc)) in &json_pos_model {
                let mut p = inv.read_postings(term, IndexRecordOption::WithFreqsAndPositions).or_fail("read_postings_failed")?.ok_or_else(|| Failure::new("json_term_not_found", format!("{k:?}")))?;
                for (d, ps) in per_doc {
                    let got = p.seek(*d);
                    ensure!(got == *d, "posting_doc_differs", "json {k:?}: seek({d}) = {got}");
                    p.positions(&mut positions);
                    let mut exp = ps.clone();
                    exp.sort();
                    ensure!(positions == exp, "json_positions_differ", "json term {:?} doc {d}: positions {positions:?} expected {exp:?} (several JSON values for one field)", String::from_utf8_lossy(k));
                }
            }
            cx.label_if(c.docs.iter().any(|d| !d.json.is_empty() && !d.json_more.is_empty()), "json_multi_value_positions");
            cx.label_if(wide_paths && c.docs.len() > 256, "json_more_than_256_paths");
        }
        cx.label_if(longest > 128, "list_len>128");
        cx.label_if(c.docs.iter().any(|d| d.u.iter().any(|x| *x < 4) || d.i.iter().any(|x| *x == i16::MIN || *x == i16::MAX) || d.f.iter().any(|x| *x == i16::MIN || *x == i16::MAX || *x == 1)), "extreme_values");
        if longest > 128 || docs.len() > 1 {
            cx.nontrivial(fp(c));
        }
        cx.sample(|| json!({"sub":"typed","docs":docs.len(),"first_doc":c.docs.first()}));
        Ok(())
    }
}

// ------------------------------------------------------------------------------------------------
/// The in-memory term table of the indexer (`tantivy_stacker::ArenaHashMap`): every distinct key is one entry.
/// Keys of one case have the same length and differ only inside a 4-byte window at a generated position, so that
/// every byte position of a key is at some point the only thing that tells two keys apart; with ~10^5 keys per case a
/// few pairs share their 32-bit hash, which is when the table has to compare the keys themselves.
#[derive(Clone, Debug, Serialize, Deserialize)]
pub struct TableCase {
    pub len: u8,
    pub window: u8,
    pub nkeys: u32,
    pub salt: u32,
}
pub struct TermTable;
impl Sub for TermTable {
    type Case = TableCase;
    fn name(&self) -> &'static str {
        "term_table"
    }
    fn cases(&self, tier: Tier) -> u32 {
        tier.pick(320, 6000)
    }
    fn max_shrink_iters(&self) -> u32 {
        60
    }
    fn strategy(&self, _tier: Tier) -> BoxedStrategy<TableCase> {
        (prop_oneof![2 => 4u8..17, 3 => 17u8..49, 3 => 49u8..130], any::<u8>(), prop_oneof![1 => 1u32..2000, 4 => 90_000u32..140_000], any::<u32>())
            .prop_map(|(len, window, nkeys, salt)| TableCase { len, window, nkeys, salt })
            .boxed()
    }
    fn mandatory_labels(&self, _t: Tier) -> Vec<&'static str> {
        vec!["keys>=90000", "len>=33", "len<=16", "hash_collisions_expected"]
    }
    fn run(&self, c: &TableCase, cx: &Ctx) -> CaseResult {
        use tantivy_stacker::ArenaHashMap;
        let len = c.len.max(4) as usize;
        let w0 = idx((c.window as u16) << 8, len - 3);
        let mut x = c.salt as u64 | 1;
        let base: Vec<u8> = (0..len)
            .map(|_| {
                x ^= x << 13;
                x ^= x >> 7;
                x ^= x << 17;
                (x >> 24) as u8
            })
            .collect();
        let key_of = |i: u32| {
            let mut k = base.clone();
            k[w0..w0 + 4].copy_from_slice(&i.wrapping_mul(0x9E37_79B1).to_le_bytes());
            k
        };
        let n = c.nkeys;
        let mut map = ArenaHashMap::with_capacity(1 << 10);
        let mut already = 0u32;
        for i in 0..n {
            let k = key_of(i);
            map.mutate_or_create(&k, |prev: Option<u32>| {
                if prev.is_some() {
                    already += 1;
                }
                i
            });
        }
        ensure!(already == 0, "term_table_merges_distinct_keys", "{already} of {n} distinct keys (length {len}, differing in bytes {w0}..{}) were taken for a key that is already in the table", w0 + 4);
        ensure!(map.len() == n as usize, "term_table_len", "{} entries for {n} distinct keys", map.len());
        for i in (0..n).step_by(7) {
            let got: Option<u32> = map.get(&key_of(i));
            ensure!(got == Some(i), "term_table_lookup", "key #{i}: {got:?}");
        }
        let mut seen = 0usize;
        for (k, addr) in map.iter() {
            let v: u32 = map.read(addr);
            ensure!(k == key_of(v).as_slice(), "term_table_iter", "entry with value {v} carries another key");
            seen += 1;
        }
        ensure!(seen == n as usize, "term_table_iter", "iter() yields {seen} entries for {n} keys");
        cx.evals(n as u64);
        cx.label_if(n >= 90_000, "keys>=90000");
        cx.label_if(n >= 90_000, "hash_collisions_expected");
        cx.label_if(len >= 33, "len>=33");
        cx.label_if(len <= 16, "len<=16");
        cx.label_if(len % 16 != 0 && len >= 33, "len_not_multiple_of_16");
        if n >= 90_000 {
            cx.nontrivial(fp(c));
        }
        cx.sample(|| json!({"sub": "term_table", "len": len, "window": [w0, w0 + 4], "keys": n}));
        Ok(())
    }
}
