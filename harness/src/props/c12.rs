//! C12 — relevance scores are BM25 over the searcher's statistics; explain agrees.
use std::collections::BTreeMap;

use proptest::prelude::*;
use serde::{Deserialize, Serialize};
use serde_json::json;
use tantivy::collector::TopDocs;
use tantivy::indexer::NoMergePolicy;
use tantivy::query::*;
use tantivy::schema::*;
use tantivy::{DocAddress, Index, ReloadPolicy, Score, Searcher, TantivyDocument, Term};

use crate::engine::*;
use crate::scoring::*;
use crate::util::{writer, WriterCfg};
use crate::{ensure, fail};

pub fn def() -> PropDef {
    PropDef {
        id: "C12",
        level: "exploration",
        rule: "Generated corpora of 3-60 documents whose token counts are clustered on the edges of the 256 field-norm buckets (1 .. ~70 000 tokens: a generated token list plus padding), 1-5 segments, with and without deletes, x scoring queries (term with frequencies, two/three-term phrases, boolean should/must/must-not mixes, nested boosts, const-score, disjunction-max with tie breaker). Oracles: (1) an independent f32 BM25 over statistics derived from the MODEL (N = documents added, n = documents containing the term, avgdl = tokens / N, tf and phrase counts from the token list, length through the frozen norm table), summed over matching clauses, times boosts: relative tolerance 1e-5 per clause, and the matching set must agree; (2) explain(doc).value() equals the collected score (bit-identical for one scoring clause); (3) the score of (query, doc) is bit-identical across TopDocs with K=1/3/N and the exhaustive collector for single-clause queries; (4) without deletes the single-clause score of a uid is bit-identical after merging all segments into one. Non-trivial = >= 2 segments whose per-segment statistics differ and a matching document in a norm bucket different from its neighbours; distinct by hash(corpus, query).",
        assumptions: vec![
            "statistics with deleted documents are those of the un-merged segments (deleted documents still count), as the searcher defines them",
            "term frequencies need WithFreqs: term leaves are built with freqs/positions record options",
        ],
        subs: vec![Box::new(Bm25)],
    }
}

#[derive(Clone, Debug, Serialize, Deserialize)]
pub struct SDoc {
    pub tokens: Vec<u8>,
    /// number of padding tokens appended
    pub pad: u32,
}
#[derive(Clone, Debug, Serialize, Deserialize)]
pub enum SQ {
    Term(u8),
    Phrase(Vec<u8>),
    Bool(Vec<(u8, SQ)>),
    Boost(Box<SQ>, u8),
    Const(Box<SQ>, u8),
    DisMax(Vec<SQ>, u8),
}
#[derive(Clone, Debug, Serialize, Deserialize)]
pub struct Bm25Case {
    pub docs: Vec<SDoc>,
    pub cuts: Vec<u16>,
    pub deletes: Vec<u16>,
    pub queries: Vec<SQ>,
}

const NW: u8 = 6;
fn w(i: u8) -> String {
    format!("w{i}")
}
fn total_len(d: &SDoc) -> u32 {
    d.tokens.len() as u32 + d.pad
}
fn tf(d: &SDoc, t: u8) -> u32 {
    d.tokens.iter().filter(|x| **x == t).count() as u32
}
fn phrase_count(d: &SDoc, ws: &[u8]) -> u32 {
    if ws.is_empty() || d.tokens.len() < ws.len() {
        return 0;
    }
    (0..=d.tokens.len() - ws.len()).filter(|i| &d.tokens[*i..*i + ws.len()] == ws).count() as u32
}

struct Stats {
    n_docs: u64,
    df: [u64; NW as usize],
    avg: f32,
}

fn ref_score(q: &SQ, d: &SDoc, st: &Stats) -> Option<f32> {
    let qlen = quantised_len(total_len(d));
    match q {
        SQ::Term(t) => {
            let f = tf(d, *t);
            if f == 0 {
                None
            } else {
                Some(bm25(idf(st.df[*t as usize], st.n_docs), f as f32, qlen, st.avg))
            }
        }
        SQ::Phrase(ws) => {
            let c = phrase_count(d, ws);
            if c == 0 {
                None
            } else {
                let mut idf_sum = 0.0f32;
                for t in ws {
                    idf_sum += idf(st.df[*t as usize], st.n_docs);
                }
                Some(bm25(idf_sum, c as f32, qlen, st.avg))
            }
        }
        SQ::Bool(cl) => {
            let mut sum = 0.0f32;
            let mut positive = false;
            let has_must = cl.iter().any(|c| c.0 == 0);
            for (o, sq) in cl {
                let s = ref_score(sq, d, st);
                match o {
                    0 => match s {
                        None => return None,
                        Some(x) => {
                            sum += x;
                            positive = true;
                        }
                    },
                    1 => {
                        if let Some(x) = s {
                            sum += x;
                            positive = true;
                        }
                    }
                    _ => {
                        if s.is_some() {
                            return None;
                        }
                    }
                }
            }
            let _ = has_must;
            if positive {
                Some(sum)
            } else {
                None
            }
        }
        SQ::Boost(q, b) => ref_score(q, d, st).map(|s| s * (*b as f32 * 0.5)),
        SQ::Const(q, c) => ref_score(q, d, st).map(|_| *c as f32 * 0.75),
        SQ::DisMax(qs, tie) => {
            let scores: Vec<f32> = qs.iter().filter_map(|q| ref_score(q, d, st)).collect();
            if scores.is_empty() {
                None
            } else {
                let max = scores.iter().cloned().fold(f32::MIN, f32::max);
                let sum: f32 = scores.iter().sum();
                Some(max + (sum - max) * (*tie as f32 * 0.25))
            }
        }
    }
}
fn scoring_clauses(q: &SQ) -> usize {
    match q {
        SQ::Term(_) | SQ::Phrase(_) => 1,
        SQ::Bool(cl) => cl.iter().filter(|c| c.0 != 2).map(|c| scoring_clauses(&c.1)).sum::<usize>().max(1),
        SQ::Boost(q, _) => scoring_clauses(q),
        SQ::Const(..) => 1,
        SQ::DisMax(qs, _) => qs.iter().map(scoring_clauses).sum::<usize>().max(1),
    }
}
/// a query is "single clause" (bit-exact comparisons) if exactly one leaf contributes and no sum is formed
fn single_clause(q: &SQ) -> bool {
    match q {
        SQ::Term(_) | SQ::Phrase(_) => true,
        SQ::Boost(q, _) => single_clause(q),
        SQ::Const(..) => true,
        SQ::Bool(cl) => cl.iter().filter(|c| c.0 != 2).count() == 1 && cl.iter().filter(|c| c.0 != 2).all(|c| single_clause(&c.1)),
        SQ::DisMax(qs, _) => qs.len() == 1 && single_clause(&qs[0]),
    }
}
/// a boost is a floating-point product that explain() and the scorer may round differently
fn has_boost(q: &SQ) -> bool {
    match q {
        SQ::Boost(..) => true,
        SQ::Term(_) | SQ::Phrase(_) => false,
        SQ::Const(q, _) => has_boost(q),
        SQ::Bool(cl) => cl.iter().any(|c| has_boost(&c.1)),
        SQ::DisMax(qs, _) => qs.iter().any(has_boost),
    }
}
fn build(q: &SQ, body: Field) -> Box<dyn Query> {
    match q {
        SQ::Term(t) => Box::new(TermQuery::new(Term::from_field_text(body, &w(*t)), IndexRecordOption::WithFreqs)),
        SQ::Phrase(ws) => Box::new(PhraseQuery::new(ws.iter().map(|t| Term::from_field_text(body, &w(*t))).collect())),
        SQ::Bool(cl) => Box::new(BooleanQuery::with_minimum_required_clauses(
            cl.iter()
                .map(|(o, sq)| {
                    (
                        match o {
                            0 => Occur::Must,
                            1 => Occur::Should,
                            _ => Occur::MustNot,
                        },
                        build(sq, body),
                    )
                })
                .collect(),
            0,
        )),
        SQ::Boost(q, b) => Box::new(BoostQuery::new(build(q, body), *b as f32 * 0.5)),
        SQ::Const(q, c) => Box::new(ConstScoreQuery::new(build(q, body), *c as f32 * 0.75)),
        SQ::DisMax(qs, tie) => Box::new(DisjunctionMaxQuery::with_tie_breaker(qs.iter().map(|q| build(q, body)).collect(), *tie as f32 * 0.25)),
    }
}

fn uid_of(s: &Searcher, a: DocAddress) -> u64 {
    s.segment_reader(a.segment_ord).fast_fields().u64("uid").unwrap().first(a.doc_id).unwrap_or(u64::MAX)
}

pub struct Bm25;
impl Sub for Bm25 {
    type Case = Bm25Case;
    fn name(&self) -> &'static str {
        "bm25"
    }
    fn cases(&self, tier: Tier) -> u32 {
        tier.pick(6000, 80000)
    }
    fn max_shrink_iters(&self) -> u32 {
        1500
    }
    fn strategy(&self, _tier: Tier) -> BoxedStrategy<Bm25Case> {
        // target lengths clustered on bucket edges
        let len = prop_oneof![
            6 => (1usize..44).prop_map(|i| FROZEN_NORMS[i]),
            3 => (40usize..100, 0u32..2).prop_map(|(i, d)| FROZEN_NORMS[i] + d),
            2 => (40usize..100).prop_map(|i| FROZEN_NORMS[i].saturating_sub(1)),
            1 => (100usize..176, 0u32..2).prop_map(|(i, d)| (FROZEN_NORMS[i] + d).min(72_000)),
        ];
        let doc = (prop::collection::vec(prop_oneof![5 => 0u8..3, 2 => 3u8..NW], 0..24), len).prop_map(|(tokens, l)| {
            let pad = l.saturating_sub(tokens.len() as u32);
            SDoc { tokens, pad }
        });
        let leaf = prop_oneof![4 => (0..NW).prop_map(SQ::Term), 1 => prop::collection::vec(0u8..3, 2..4).prop_map(SQ::Phrase)];
        let q = leaf.prop_recursive(3, 16, 4, |inner| {
            prop_oneof![
                5 => prop::collection::vec((prop_oneof![2 => Just(0u8), 4 => Just(1u8), 1 => Just(2u8)], inner.clone()), 1..5).prop_map(SQ::Bool),
                2 => (inner.clone(), 1u8..7).prop_map(|(q, b)| SQ::Boost(Box::new(q), b)),
                1 => (inner.clone(), 1u8..7).prop_map(|(q, b)| SQ::Const(Box::new(q), b)),
                2 => (prop::collection::vec(inner, 1..4), 0u8..5).prop_map(|(qs, t)| SQ::DisMax(qs, t)),
            ]
        });
        (
            prop::collection::vec(doc, 3..60),
            prop::collection::vec(any::<u16>(), 0..5),
            prop_oneof![2 => Just(vec![]), 1 => prop::collection::vec(any::<u16>(), 1..5)],
            prop::collection::vec(q, 10..30),
            0u8..16,
            4300usize..7000,
        )
            .prop_map(|(mut docs, mut cuts, deletes, queries, big, target)| {
                if big == 0 {
                    // a corpus with more than 4096 documents per segment (the union scorer's window): the short document
                    // list replicated, at most two cuts
                    for d in docs.iter_mut() {
                        d.pad %= 12;
                    }
                    let base = docs.clone();
                    while docs.len() < target {
                        docs.extend(base.iter().cloned());
                    }
                    cuts.truncate(1);
                }
                // at most two very long documents per corpus (cost)
                let mut big = 0;
                for d in docs.iter_mut() {
                    if d.pad > 5000 {
                        big += 1;
                        if big > 2 {
                            d.pad %= 3000;
                        }
                    }
                }
                Bm25Case { docs, cuts, deletes, queries }
            })
            .boxed()
    }
    fn mandatory_labels(&self, _t: Tier) -> Vec<&'static str> {
        vec!["segments>=2", "has_deletes", "no_deletes_merge_invariance", "phrase", "dismax", "boost", "const", "bool_sum", "doc_len>1000", "norm_bucket_inexact", "single_clause_bit_identical", "segment>4096_docs"]
    }
    fn run(&self, c: &Bm25Case, cx: &Ctx) -> CaseResult {
        let mut sb = Schema::builder();
        let uidf = sb.add_u64_field("uid", FAST | INDEXED);
        let body = sb.add_text_field("body", TEXT);
        let index = Index::create_in_ram(sb.build());
        let wr = writer(&index, WriterCfg::default()).or_fail("INFRA:writer")?;
        wr.set_merge_policy(Box::new(NoMergePolicy));
        let mut wr = wr;
        let n = c.docs.len();
        let cutset: std::collections::BTreeSet<usize> = c.cuts.iter().map(|x| idx(*x, n)).collect();
        for (i, d) in c.docs.iter().enumerate() {
            if i > 0 && cutset.contains(&i) {
                wr.commit().or_fail("commit_failed")?;
            }
            let mut text = String::with_capacity(d.tokens.len() * 3 + d.pad as usize * 4);
            for t in &d.tokens {
                text.push_str(&w(*t));
                text.push(' ');
            }
            for _ in 0..d.pad {
                text.push_str("pad ");
            }
            let mut doc = TantivyDocument::new();
            doc.add_u64(uidf, i as u64);
            doc.add_text(body, text);
            wr.add_document(doc).or_fail("add_failed")?;
        }
        wr.commit().or_fail("commit_failed")?;
        let mut deleted = std::collections::BTreeSet::new();
        for raw in &c.deletes {
            let u = idx(*raw, n) as u64;
            deleted.insert(u);
            wr.delete_term(Term::from_field_u64(uidf, u));
        }
        if !c.deletes.is_empty() {
            wr.commit().or_fail("commit_failed")?;
        }
        // statistics from the model
        // (a segment whose documents are all deleted is dropped at commit and no longer counts; deleted documents
        // of surviving segments still count)
        let mut bounds: Vec<usize> = cutset.iter().cloned().filter(|b| *b > 0 && *b < n).collect();
        bounds.insert(0, 0);
        bounds.push(n);
        bounds.dedup();
        let mut st = Stats { n_docs: 0, df: [0; NW as usize], avg: 0.0 };
        let mut total_tokens = 0u64;
        for wdw in bounds.windows(2) {
            let (a, b) = (wdw[0], wdw[1]);
            if (a..b).all(|i| deleted.contains(&(i as u64))) {
                continue;
            }
            for d in &c.docs[a..b] {
                st.n_docs += 1;
                total_tokens += total_len(d) as u64;
                for t in 0..NW {
                    if tf(d, t) > 0 {
                        st.df[t as usize] += 1;
                    }
                }
            }
        }
        st.avg = total_tokens as f32 / st.n_docs.max(1) as f32;
        let reader: tantivy::IndexReader = index.reader_builder().reload_policy(ReloadPolicy::Manual).try_into().or_fail("reader_open_failed")?;
        let searcher = reader.searcher();
        let nseg = searcher.segment_readers().len();
        let case_fp = fp(&(&c.docs, &c.cuts, &c.deletes));
        cx.label_if(nseg >= 2, "segments>=2");
        cx.label_if(searcher.segment_readers().iter().any(|s| s.max_doc() > 4096), "segment>4096_docs");
        cx.label_if(!deleted.is_empty(), "has_deletes");
        cx.label_if(c.docs.iter().any(|d| total_len(d) > 1000), "doc_len>1000");
        cx.label_if(c.docs.iter().any(|d| quantised_len(total_len(d)) != total_len(d)), "norm_bucket_inexact");
        let mut single_scores: Vec<(usize, BTreeMap<u64, Score>)> = vec![];
        for (qi, q) in c.queries.iter().enumerate() {
            cx.evals(1);
            let tq = build(q, body);
            let all = searcher.search(&*tq, &AllScores).or_fail("search_failed")?;
            let got: BTreeMap<u64, (Score, DocAddress)> = all.iter().map(|(s, a)| (uid_of(&searcher, *a), (*s, *a))).collect();
            let nclauses = scoring_clauses(q);
            let single = single_clause(q);
            let tol = |x: f32| 1e-5 * nclauses as f32 * x.abs().max(1e-3);
            // (1) independent BM25
            let mut non_match: Option<DocAddress> = None;
            for (i, d) in c.docs.iter().enumerate() {
                let u = i as u64;
                if deleted.contains(&u) {
                    continue;
                }
                let exp = ref_score(q, d, &st);
                match (exp, got.get(&u)) {
                    (None, None) => {}
                    (Some(e), Some((s, _))) => {
                        ensure!(
                            (e - s).abs() <= tol(e),
                            "score_differs_from_bm25",
                            "query {q:?} uid {u} (len {} -> norm {}, tokens {:?}): tantivy {s}, independent BM25 {e} (N={}, df={:?}, avgdl={})",
                            total_len(d),
                            quantised_len(total_len(d)),
                            d.tokens,
                            st.n_docs,
                            st.df,
                            st.avg
                        );
                    }
                    (Some(e), None) => fail!("scoring_query_misses_doc", "query {q:?}: uid {u} should match with score {e}"),
                    (None, Some((s, _))) => fail!("scoring_query_extra_doc", "query {q:?}: uid {u} matched with score {s} but should not match"),
                }
            }
            // find a live non-matching address for (2)
            'outer: for (ord, seg) in searcher.segment_readers().iter().enumerate().filter(|_| n <= 500) {
                for doc in seg.doc_ids_alive() {
                    let a = DocAddress::new(ord as u32, doc);
                    if !got.values().any(|x| x.1 == a) {
                        non_match = Some(a);
                        break 'outer;
                    }
                }
            }
            // (2) explain
            for (u, (s, a)) in got.iter().take(6) {
                let ex = tq.explain(&searcher, *a).or_fail("explain_failed_for_match")?;
                if single && !has_boost(q) {
                    ensure!(ex.value().to_bits() == s.to_bits(), "explain_differs_from_score", "query {q:?} uid {u}: explain {} score {s} (single unboosted clause: must be bit-identical)", ex.value());
                } else {
                    ensure!((ex.value() - s).abs() <= tol(*s), "explain_differs_from_score", "query {q:?} uid {u}: explain {} score {s}", ex.value());
                }
            }
            // NB: explain() of a NON-matching document is not part of the property (and several Weight::explain
            // implementations call seek(doc) on a scorer that is already past doc, which trips a debug assertion
            // of DocSet::seek): it is deliberately not exercised.
            let _ = non_match;
            // (3) same score whatever the collector / K
            for k in [1usize, 3, n + 1] {
                let top = searcher.search(&*tq, &TopDocs::with_limit(k).order_by_score()).or_fail("search_failed")?;
                for (s, a) in top {
                    let u = uid_of(&searcher, a);
                    let Some((es, _)) = got.get(&u) else { fail!("topdocs_returned_non_match", "query {q:?} K={k}: uid {u}") };
                    if single {
                        ensure!(s.to_bits() == es.to_bits(), "score_depends_on_collector", "query {q:?} uid {u}: TopDocs(K={k}) {s}, exhaustive collector {es} (single clause: must be bit-identical)");
                    } else {
                        ensure!((s - es).abs() <= tol(*es), "score_depends_on_collector", "query {q:?} uid {u}: TopDocs(K={k}) {s}, exhaustive collector {es}");
                    }
                }
            }
            if single {
                cx.label("single_clause_bit_identical");
                single_scores.push((qi, got.iter().map(|(u, (s, _))| (*u, *s)).collect()));
            }
            match q {
                SQ::Phrase(_) => cx.label("phrase"),
                SQ::DisMax(..) => cx.label("dismax"),
                SQ::Boost(..) => cx.label("boost"),
                SQ::Const(..) => cx.label("const"),
                SQ::Bool(cl) if cl.iter().filter(|c| c.0 != 2).count() >= 2 => cx.label("bool_sum"),
                _ => {}
            }
            let interesting_doc = got.keys().any(|u| {
                let l = total_len(&c.docs[*u as usize]);
                let id = norm_id(l);
                *u > 0 && norm_id(total_len(&c.docs[*u as usize - 1])) != id
            });
            if nseg >= 2 && interesting_doc {
                cx.nontrivial(mix(case_fp, fp(q)));
            }
        }
        // (4) segmentation invariance without deletes
        if deleted.is_empty() && nseg >= 2 {
            let ids = index.searchable_segment_ids().or_fail("segment_ids")?;
            wr.merge(&ids).wait().or_fail("merge_failed")?;
            reader.reload().or_fail("reload_failed")?;
            let s2 = reader.searcher();
            for (qi, before) in &single_scores {
                let tq = build(&c.queries[*qi], body);
                let all = s2.search(&*tq, &AllScores).or_fail("search_failed")?;
                let after: BTreeMap<u64, Score> = all.iter().map(|(s, a)| (uid_of(&s2, *a), *s)).collect();
                ensure!(before.len() == after.len(), "score_depends_on_segmentation", "query {:?}: {} matches before the merge, {} after", c.queries[*qi], before.len(), after.len());
                for (u, s) in before {
                    let a = after.get(u).copied().unwrap_or(f32::NAN);
                    ensure!(a.to_bits() == s.to_bits(), "score_depends_on_segmentation", "query {:?} uid {u}: {s} over {nseg} segments, {a} after merging into one (no deletes)", c.queries[*qi]);
                }
            }
            cx.label("no_deletes_merge_invariance");
        }
        cx.sample(|| json!({"sub":"bm25","docs":c.docs.iter().take(3).collect::<Vec<_>>(),"ndocs":n,"segments":nseg,"deleted":deleted.len(),"queries":c.queries.iter().take(3).collect::<Vec<_>>()}));
        Ok(())
    }
}
