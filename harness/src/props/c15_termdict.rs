//! C15, sub-check `termdict`: tantivy::termdict::{TermDictionaryBuilder, TermDictionary, TermMerger} with TermInfo
//! values against a sorted-vector model.  Only the API common to the FST and the sstable term dictionary is used.
use std::ops::Bound;

use proptest::prelude::*;
use serde::{Deserialize, Serialize};
use serde_json::json;
use tantivy::directory::FileSlice;
use tantivy::postings::TermInfo;
use tantivy::termdict::{TermDictionary, TermDictionaryBuilder, TermMerger};
use tantivy_fst::Automaton;

use super::c15::*;
use crate::engine::*;
use crate::{ensure, fail};

#[derive(Clone, Debug, Serialize, Deserialize)]
pub enum TdOp {
    Point(KeyRef),
    Ord(OrdRef),
    Range { lo: BoundSpec, hi: BoundSpec, use_next: bool },
    Search { aut: AutSpec, lo: BoundSpec, hi: BoundSpec },
}
#[derive(Clone, Debug, Serialize, Deserialize)]
pub struct TdMerge {
    /// (selection seed, density/255) of every merged dictionary: which keys of the universe it holds
    pub members: Vec<(u64, u8)>,
    pub lo: BoundSpec,
    pub hi: BoundSpec,
}
#[derive(Clone, Debug, Serialize, Deserialize)]
pub struct TdCase {
    pub keys: KeySet,
    pub vseed: u64,
    pub ops: Vec<TdOp>,
    pub merge: Option<TdMerge>,
}

pub fn member_has(seed: u64, density: u8, i: usize) -> bool {
    density == 255 || (mix(seed, i as u64) & 0xFF) < density as u64
}

fn build_termdict(entries: &[(Vec<u8>, TermInfo)]) -> Result<TermDictionary, Failure> {
    let mut b = TermDictionaryBuilder::create(Vec::new()).or_fail("termdict_builder_error")?;
    for (i, (k, v)) in entries.iter().enumerate() {
        // both entry points of the builder
        if i % 2 == 0 {
            b.insert(k, v).or_fail("termdict_insert_error")?;
        } else {
            b.insert_key(k).or_fail("termdict_insert_error")?;
            b.insert_value(v).or_fail("termdict_insert_error")?;
        }
    }
    let bytes = b.finish().or_fail("termdict_finish_error")?;
    TermDictionary::open(FileSlice::from(bytes)).or_fail("termdict_open_error")
}

struct TdEnv<'a> {
    dict: &'a TermDictionary,
    sorted: &'a [(Vec<u8>, TermInfo)],
    keys: Vec<&'a [u8]>,
    cx: &'a Ctx<'a>,
}
impl<'a> TdEnv<'a> {
    fn n(&self) -> usize {
        self.sorted.len()
    }
    fn expected(&self, lo: &Bound<Vec<u8>>, hi: &Bound<Vec<u8>>) -> Vec<usize> {
        (0..self.n()).filter(|i| above_lower(&self.sorted[*i].0, lo) && below_upper(&self.sorted[*i].0, hi)).collect()
    }
    fn compare(&self, what: &str, sig: &str, got: &[(Vec<u8>, TermInfo, u64)], exp: &[usize]) -> CaseResult {
        ensure!(got.len() == exp.len(), sig, "{what}: stream returned {} entries, model {}", got.len(), exp.len());
        for (j, g) in got.iter().enumerate() {
            let (k, v) = &self.sorted[exp[j]];
            ensure!(&g.0 == k, sig, "{what}: entry {j}: key {} expected {}", hex(&g.0), hex(k));
            ensure!(&g.1 == v, format!("{sig}_value"), "{what}: entry {j} key {}: value {:?} expected {:?}", hex(k), g.1, v);
            ensure!(g.2 == exp[j] as u64, format!("{sig}_term_ord"), "{what}: entry {j} key {}: term_ord {} expected {}", hex(k), g.2, exp[j]);
        }
        Ok(())
    }
    fn point(&self, kr: &KeyRef) -> CaseResult {
        let key = kr.resolve(&self.keys);
        let pos = self.sorted.binary_search_by(|e| e.0[..].cmp(&key[..])).ok();
        let got = self.dict.get(&key).or_fail("termdict_get_error")?;
        ensure!(got == pos.map(|i| self.sorted[i].1.clone()), "termdict_get_mismatch", "get({}) = {got:?}, model ordinal {pos:?}", hex(&key));
        let got = self.dict.term_ord(&key).or_fail("termdict_term_ord_error")?;
        ensure!(got == pos.map(|i| i as u64), "termdict_term_ord_mismatch", "term_ord({}) = {got:?}, model {pos:?}", hex(&key));
        self.cx.label(if pos.is_some() { "point_present" } else { "point_absent" });
        Ok(())
    }
    fn ord(&self, or: &OrdRef) -> CaseResult {
        let ord = or.resolve(self.n());
        let mut buf = b"stale".to_vec();
        let found = self.dict.ord_to_term(ord, &mut buf).or_fail("termdict_ord_to_term_error")?;
        if ord < self.n() as u64 {
            ensure!(found && buf == self.sorted[ord as usize].0, "termdict_ord_to_term_mismatch", "ord_to_term({ord}) = {found} {}, model {}", hex(&buf), hex(&self.sorted[ord as usize].0));
            self.cx.label("ord_in_range");
        } else {
            ensure!(!found, "termdict_ord_to_term_mismatch", "ord_to_term({ord}) = true ({}) with only {} terms", hex(&buf), self.n());
            self.cx.label("ord_out_of_range");
        }
        Ok(())
    }
    fn range(&self, lo: &BoundSpec, hi: &BoundSpec, use_next: bool) -> CaseResult {
        let lo = lo.resolve(&self.keys);
        let hi = hi.resolve(&self.keys);
        let exp = self.expected(&lo, &hi);
        let mut b = self.dict.range();
        b = match &lo {
            Bound::Unbounded => b,
            Bound::Included(k) => b.ge(k),
            Bound::Excluded(k) => b.gt(k),
        };
        b = match &hi {
            Bound::Unbounded => b,
            Bound::Included(k) => b.le(k),
            Bound::Excluded(k) => b.lt(k),
        };
        let mut st = b.into_stream().or_fail("termdict_into_stream_error")?;
        let mut got = vec![];
        loop {
            if use_next {
                let Some(item) = st.next().map(|(k, v)| (k.to_vec(), v.clone())) else { break };
                got.push((item.0, item.1, st.term_ord()));
            } else {
                if !st.advance() {
                    break;
                }
                got.push((st.key().to_vec(), st.value().clone(), st.term_ord()));
            }
            if got.len() > self.n() + 1 {
                break;
            }
        }
        self.compare(&format!("range({}, {})", hexb(&lo), hexb(&hi)), "termdict_range_mismatch", &got, &exp)?;
        let inverted = bounds_inverted(&lo, &hi);
        self.cx.label_if(inverted, "range_inverted");
        self.cx.label_if(exp.is_empty() && !inverted, "range_empty");
        self.cx.label_if(!exp.is_empty(), "range_hits");
        self.cx.evals(1);
        Ok(())
    }
    fn search(&self, aut: &AutSpec, lo: &BoundSpec, hi: &BoundSpec) -> CaseResult {
        struct V<'e, 'a> {
            env: &'e TdEnv<'a>,
            lo: Bound<Vec<u8>>,
            hi: Bound<Vec<u8>>,
        }
        impl<'e, 'a> AutVisitor for V<'e, 'a> {
            type Out = CaseResult;
            fn visit<A: Automaton>(self, a: &A, kind: &'static str) -> CaseResult
            where A::State: Clone {
                let env = self.env;
                let exp: Vec<usize> = env.expected(&self.lo, &self.hi).into_iter().filter(|i| aut_matches(a, &env.sorted[*i].0)).collect();
                let mut b = env.dict.search(a);
                b = match &self.lo {
                    Bound::Unbounded => b,
                    Bound::Included(k) => b.ge(k),
                    Bound::Excluded(k) => b.gt(k),
                };
                b = match &self.hi {
                    Bound::Unbounded => b,
                    Bound::Included(k) => b.le(k),
                    Bound::Excluded(k) => b.lt(k),
                };
                let mut st = b.into_stream().or_fail("termdict_into_stream_error")?;
                let mut got = vec![];
                while st.advance() {
                    got.push((st.key().to_vec(), st.value().clone(), st.term_ord()));
                    if got.len() > env.n() + 1 {
                        break;
                    }
                }
                env.compare(&format!("search[{kind}]({}, {})", hexb(&self.lo), hexb(&self.hi)), &format!("termdict_search_mismatch:{kind}"), &got, &exp)?;
                env.cx.label(&format!("search_{kind}"));
                env.cx.label_if(!exp.is_empty(), &format!("search_{kind}_hits"));
                env.cx.evals(1);
                Ok(())
            }
        }
        let lo = lo.resolve(&self.keys);
        let hi = hi.resolve(&self.keys);
        match with_automaton(aut, &self.keys, V { env: self, lo, hi }) {
            Some(r) => r,
            None => {
                self.cx.label("regex_rejected");
                Ok(())
            }
        }
    }
}

fn check_merge(universe: &[Vec<u8>], m: &TdMerge, vseed: u64, cx: &Ctx) -> CaseResult {
    let ukeys: Vec<&[u8]> = universe.iter().map(|k| &k[..]).collect();
    let lo = m.lo.resolve(&ukeys);
    let hi = m.hi.resolve(&ukeys);
    // member dictionaries
    let mut members: Vec<Vec<(Vec<u8>, TermInfo)>> = vec![];
    for (d, (seed, density)) in m.members.iter().enumerate() {
        let keys: Vec<Vec<u8>> = universe.iter().enumerate().filter(|(i, _)| member_has(*seed, *density, *i)).map(|(_, k)| k.clone()).collect();
        let infos = chained_term_infos(keys.len(), mix(vseed, d as u64 + 100));
        members.push(keys.into_iter().zip(infos).collect());
    }
    let dicts: Vec<TermDictionary> = members.iter().map(|e| build_termdict(e)).collect::<Result<_, _>>()?;
    let mut streams = vec![];
    for d in &dicts {
        let mut b = d.range();
        b = match &lo {
            Bound::Unbounded => b,
            Bound::Included(k) => b.ge(k),
            Bound::Excluded(k) => b.gt(k),
        };
        b = match &hi {
            Bound::Unbounded => b,
            Bound::Included(k) => b.le(k),
            Bound::Excluded(k) => b.lt(k),
        };
        streams.push(b.into_stream().or_fail("termdict_into_stream_error")?);
    }
    // model: sorted union with, per key, (member index, old ordinal, info) in member order
    let mut expected: Vec<(&[u8], Vec<(usize, u64, TermInfo)>)> = vec![];
    for k in universe.iter().filter(|k| above_lower(k, &lo) && below_upper(k, &hi)) {
        let mut hits = vec![];
        for (d, e) in members.iter().enumerate() {
            if let Ok(o) = e.binary_search_by(|x| x.0[..].cmp(&k[..])) {
                hits.push((d, o as u64, e[o].1.clone()));
            }
        }
        if !hits.is_empty() {
            expected.push((&k[..], hits));
        }
    }
    let mut merger = TermMerger::new(streams);
    let mut j = 0usize;
    let mut overlap = 0usize;
    while merger.advance() {
        ensure!(j < expected.len(), "termmerger_union_mismatch", "merger yields more than the {} keys of the union; extra key {}", expected.len(), hex(merger.key()));
        let (k, hits) = &expected[j];
        ensure!(merger.key() == *k, "termmerger_union_mismatch", "merged key #{j} = {}, model {}", hex(merger.key()), hex(k));
        // (the sstable TermMerger does not export the old ordinals)
        #[cfg(not(feature = "quickwit"))]
        {
            // the order in which the segments are listed is not part of the property
            let mut got: Vec<(usize, u64)> = merger.matching_segments().collect();
            got.sort();
            let want: Vec<(usize, u64)> = hits.iter().map(|h| (h.0, h.1)).collect();
            ensure!(got == want, "termmerger_ordinal_map_mismatch", "key {}: matching_segments {got:?}, model {want:?}", hex(k));
        }
        let mut got: Vec<(usize, TermInfo)> = merger.current_segment_ords_and_term_infos().collect();
        got.sort_by_key(|g| g.0);
        let want: Vec<(usize, TermInfo)> = hits.iter().map(|h| (h.0, h.2.clone())).collect();
        ensure!(got == want, "termmerger_term_info_mismatch", "key {}: {got:?}, model {want:?}", hex(k));
        if hits.len() >= 2 {
            overlap += 1;
        }
        j += 1;
    }
    ensure!(j == expected.len(), "termmerger_union_mismatch", "merger stopped after {j} keys, union has {}", expected.len());
    cx.label("merge");
    cx.label_if(overlap > 0, "merge_overlapping_keys");
    cx.label_if(members.iter().any(|m| m.is_empty()), "merge_with_empty_dictionary");
    cx.label_if(!matches!(lo, Bound::Unbounded) || !matches!(hi, Bound::Unbounded), "merge_bounded_streams");
    cx.label_if(expected.first().map(|e| e.0.is_empty()).unwrap_or(false), "merge_empty_key");
    cx.count("merged_keys", expected.len() as u64);
    cx.evals(1);
    Ok(())
}

pub struct TermDictSub;
impl Sub for TermDictSub {
    type Case = TdCase;
    fn name(&self) -> &'static str {
        "termdict"
    }
    fn cases(&self, tier: Tier) -> u32 {
        tier.pick(5_000, 100_000)
    }
    fn strategy(&self, _tier: Tier) -> BoxedStrategy<TdCase> {
        let op = prop_oneof![
            5 => keyref_strategy().prop_map(TdOp::Point),
            2 => ordref_strategy().prop_map(TdOp::Ord),
            5 => (bound_strategy(), bound_strategy(), any::<bool>()).prop_map(|(lo, hi, use_next)| TdOp::Range { lo, hi, use_next }),
            6 => (aut_strategy(), bound_strategy(), bound_strategy()).prop_map(|(aut, lo, hi)| TdOp::Search { aut, lo, hi }),
        ];
        let density = prop_oneof![1 => Just(0u8), 2 => Just(255u8), 6 => 30u8..230];
        let merge = (prop::collection::vec((any::<u64>(), density), 1..6), prop_oneof![3 => Just(BoundSpec::U), 1 => bound_strategy()], prop_oneof![3 => Just(BoundSpec::U), 1 => bound_strategy()])
            .prop_map(|(members, lo, hi)| TdMerge { members, lo, hi });
        (keyset_strategy(700, true), any::<u64>(), prop::collection::vec(op, 6..30), prop::option::weighted(0.6, merge))
            .prop_map(|(keys, vseed, ops, merge)| TdCase { keys, vseed, ops, merge })
            .boxed()
    }
    fn mandatory_labels(&self, _t: Tier) -> Vec<&'static str> {
        vec![
            "terms=0",
            "terms=1",
            "terms>256",
            "terms>512",
            "has_empty_key",
            "key>=20KB",
            "point_present",
            "point_absent",
            "ord_in_range",
            "ord_out_of_range",
            "range_inverted",
            "range_empty",
            "range_hits",
            "search_prefix_hits",
            "search_lev1_hits",
            "search_lev2t_hits",
            "search_regex_hits",
            "merge",
            "merge_overlapping_keys",
            "merge_with_empty_dictionary",
            "merge_bounded_streams",
            "merge_empty_key",
        ]
    }
    fn run(&self, c: &TdCase, cx: &Ctx) -> CaseResult {
        let keys = c.keys.build();
        let n = keys.len();
        let infos = chained_term_infos(n, c.vseed);
        let sorted: Vec<(Vec<u8>, TermInfo)> = keys.iter().cloned().zip(infos).collect();
        let dict = build_termdict(&sorted)?;
        ensure!(dict.num_terms() == n, "termdict_num_terms_mismatch", "num_terms {} model {n}", dict.num_terms());
        let env = TdEnv { dict: &dict, sorted: &sorted, keys: sorted.iter().map(|e| &e.0[..]).collect(), cx };
        // full stream
        let mut st = dict.stream().or_fail("termdict_stream_error")?;
        let mut got = vec![];
        while st.advance() {
            got.push((st.key().to_vec(), st.value().clone(), st.term_ord()));
            if got.len() > n + 1 {
                break;
            }
        }
        let all: Vec<usize> = (0..n).collect();
        env.compare("stream()", "termdict_stream_mismatch", &got, &all)?;
        // exact lookups around the 256-entry term-info blocks and on a strided subset
        let mut buf = vec![];
        let stride = (n / 48).max(1);
        let picks: Vec<usize> = (0..n).step_by(stride).chain([255usize, 256, 257, 511, 512, 513].into_iter().filter(|i| *i < n)).chain(n.saturating_sub(1)..n).collect();
        for i in picks {
            let (k, v) = &sorted[i];
            let g = dict.get(k).or_fail("termdict_get_error")?;
            ensure!(g.as_ref() == Some(v), "termdict_get_mismatch", "get({}) = {g:?}, model {v:?} (ordinal {i})", hex(k));
            let o = dict.term_ord(k).or_fail("termdict_term_ord_error")?;
            ensure!(o == Some(i as u64), "termdict_term_ord_mismatch", "term_ord({}) = {o:?}, model {i}", hex(k));
            ensure!(dict.ord_to_term(i as u64, &mut buf).or_fail("termdict_ord_to_term_error")? && &buf == k, "termdict_ord_to_term_mismatch", "ord_to_term({i}) = {}, model {}", hex(&buf), hex(k));
        }
        for op in &c.ops {
            match op {
                TdOp::Point(k) => env.point(k)?,
                TdOp::Ord(o) => env.ord(o)?,
                TdOp::Range { lo, hi, use_next } => env.range(lo, hi, *use_next)?,
                TdOp::Search { aut, lo, hi } => env.search(aut, lo, hi)?,
            }
        }
        if let Some(m) = &c.merge {
            if m.members.is_empty() {
                fail!("INFRA:no_members", "");
            }
            check_merge(&keys, m, c.vseed, cx)?;
        }
        cx.label(match n {
            0 => "terms=0",
            1 => "terms=1",
            2..=256 => "terms<=256",
            257..=512 => "terms>256",
            _ => "terms>512",
        });
        cx.label_if(n > 512, "terms>256");
        cx.label_if(n > 0 && sorted[0].0.is_empty(), "has_empty_key");
        cx.label_if(sorted.iter().any(|e| e.0.len() >= 20_000), "key>=20KB");
        if n > 256 || c.merge.as_ref().map(|m| m.members.len() >= 2).unwrap_or(false) {
            cx.nontrivial(fp(c));
        }
        cx.sample(|| json!({"sub":"termdict","terms":n,"ops":c.ops.iter().take(3).collect::<Vec<_>>(),"merge":c.merge}));
        Ok(())
    }
}
