//! C14 model: corpus, request specification, request JSON and the *direct reference evaluator*.
//!
//! The evaluator works on plain model documents and never touches tantivy. Its semantics are taken from the
//! rustdoc of `src/aggregation/**` only (quoted next to each rule).
use std::collections::{BTreeMap, BTreeSet};
use std::net::{Ipv4Addr, Ipv6Addr};

use serde::{Deserialize, Serialize};
use serde_json::{json, Map, Value};

// ------------------------------------------------------------------------------------------------
// corpus

#[derive(Clone, Debug, Serialize, Deserialize)]
pub struct Doc {
    /// i64 field `n`, multi-valued
    pub n: Vec<i8>,
    /// u64 field `u`, optional single value
    pub u: Option<u8>,
    /// f64 field `f`, multi-valued, value = x / fdiv
    pub f: Vec<i16>,
    /// f64 field `g`, optional single value, value = x / fdiv
    pub g: Option<i16>,
    /// raw string field `s`, multi-valued, term id = min(raw, vocab-1)
    pub s: Vec<u16>,
    /// raw string field `cat` (indexed), optional single value
    pub cat: Option<u8>,
    /// date field `d`, optional single value, ms = base + x * step
    pub d: Option<i16>,
    /// ip field, multi-valued, index into IPS
    pub ip: Vec<u8>,
    /// deleted before the last commit
    pub del: bool,
}

#[derive(Clone, Debug, Serialize, Deserialize)]
pub struct Corpus {
    pub docs: Vec<Doc>,
    pub fdiv: u8,
    pub vocab: u16,
    pub dstep: u8,
    pub dbase: u8,
}

pub const DSTEPS_MS: [i64; 5] = [1, 250, 1000, 900_000, 43_200_000];
pub const DBASES_MS: [i64; 3] = [1_600_000_000_000, 0, 1_000_000_000];
pub const IPS: [&str; 8] = ["10.0.0.1", "10.0.0.2", "192.168.1.1", "255.255.255.255", "::1", "2001:db8::1", "2001:db8::ff", "fe80::1"];

pub fn ip_of(i: u8) -> Ipv6Addr {
    let s = IPS[(i as usize) % IPS.len()];
    if let Ok(v4) = s.parse::<Ipv4Addr>() {
        v4.to_ipv6_mapped()
    } else {
        s.parse::<Ipv6Addr>().unwrap()
    }
}
pub fn ip_key(ip: &Ipv6Addr) -> String {
    // rustdoc of IntermediateKey -> Key: "Prefer to use the IPv4 representation if possible"
    match ip.to_ipv4_mapped() {
        Some(v4) => v4.to_string(),
        None => ip.to_string(),
    }
}
pub fn term_of(id: u16) -> String {
    format!("t{id:03}")
}
pub fn cat_of(id: u8) -> String {
    format!("c{id}")
}

#[derive(Clone, Debug)]
pub struct DocM {
    pub uid: u64,
    pub n: Vec<i64>,
    pub u: Option<u64>,
    pub f: Vec<f64>,
    pub g: Option<f64>,
    pub s: Vec<String>,
    pub cat: Option<String>,
    pub d_ms: Option<i64>,
    pub ip: Vec<Ipv6Addr>,
    pub del: bool,
}

impl Corpus {
    pub fn fval(&self, x: i16) -> f64 {
        x as f64 / self.fdiv.max(1) as f64
    }
    pub fn dval(&self, x: i64) -> i64 {
        DBASES_MS[self.dbase as usize % DBASES_MS.len()] + x * DSTEPS_MS[self.dstep as usize % DSTEPS_MS.len()]
    }
    pub fn model(&self) -> Vec<DocM> {
        self.docs
            .iter()
            .enumerate()
            .map(|(i, d)| DocM {
                uid: i as u64,
                n: d.n.iter().map(|x| *x as i64).collect(),
                u: d.u.map(|x| x as u64),
                f: d.f.iter().map(|x| self.fval(*x)).collect(),
                g: d.g.map(|x| self.fval(x)),
                s: d.s.iter().map(|x| term_of((*x).min(self.vocab.max(1) - 1))).collect(),
                cat: d.cat.map(cat_of),
                d_ms: d.d.map(|x| self.dval(x as i64)),
                ip: d.ip.iter().map(|x| ip_of(*x)).collect(),
                del: d.del,
            })
            .collect()
    }
}

// ------------------------------------------------------------------------------------------------
// request specification

#[derive(Clone, Copy, Debug, Serialize, Deserialize, PartialEq, Eq, PartialOrd, Ord)]
pub enum Fld {
    N,
    U,
    F,
    G,
    S,
    Cat,
    D,
    Ip,
    Uid,
}
impl Fld {
    pub fn name(self) -> &'static str {
        match self {
            Fld::N => "n",
            Fld::U => "u",
            Fld::F => "f",
            Fld::G => "g",
            Fld::S => "s",
            Fld::Cat => "cat",
            Fld::D => "d",
            Fld::Ip => "ip",
            Fld::Uid => "uid",
        }
    }
    pub fn is_num(self) -> bool {
        matches!(self, Fld::N | Fld::U | Fld::F | Fld::G | Fld::Uid)
    }
    pub fn is_int(self) -> bool {
        matches!(self, Fld::N | Fld::U | Fld::Uid)
    }
    pub fn is_str(self) -> bool {
        matches!(self, Fld::S | Fld::Cat)
    }
}

/// a typed field value of the model
#[derive(Clone, Debug, PartialEq)]
pub enum V {
    I(i64),
    U(u64),
    F(f64),
    Str(String),
    DateMs(i64),
    Ip(Ipv6Addr),
}
impl V {
    pub fn as_f64(&self) -> Option<f64> {
        match self {
            V::I(x) => Some(*x as f64),
            V::U(x) => Some(*x as f64),
            V::F(x) => Some(*x),
            _ => None,
        }
    }
}
pub fn vals(d: &DocM, f: Fld) -> Vec<V> {
    match f {
        Fld::N => d.n.iter().map(|x| V::I(*x)).collect(),
        Fld::U => d.u.iter().map(|x| V::U(*x)).collect(),
        Fld::F => d.f.iter().map(|x| V::F(*x)).collect(),
        Fld::G => d.g.iter().map(|x| V::F(*x)).collect(),
        Fld::S => d.s.iter().map(|x| V::Str(x.clone())).collect(),
        Fld::Cat => d.cat.iter().map(|x| V::Str(x.clone())).collect(),
        Fld::D => d.d_ms.iter().map(|x| V::DateMs(*x)).collect(),
        Fld::Ip => d.ip.iter().map(|x| V::Ip(*x)).collect(),
        Fld::Uid => vec![V::U(d.uid)],
    }
}
pub fn nums(d: &DocM, f: Fld) -> Vec<f64> {
    vals(d, f).iter().filter_map(|v| v.as_f64()).collect()
}

/// the filtering query (top level and inside `filter` aggregations)
#[derive(Clone, Debug, Serialize, Deserialize)]
pub enum Q {
    All,
    Cat(u8),
    /// uid in [lo, hi] (raw positions, mapped onto 0..ndocs)
    UidRange(u16, u16),
    /// cat:c OR uid range
    CatOrUid(u8, u16, u16),
    /// uid range AND NOT cat
    UidNotCat(u16, u16, u8),
}

#[derive(Clone, Debug, Serialize, Deserialize)]
pub enum MetricKind {
    Avg,
    Sum,
    Min,
    Max,
    Count,
    Stats,
    ExtStats { sigma: Option<u8> },
    Percentiles { percents: Option<Vec<u8>>, keyed: bool },
    Cardinality,
    TopHits { size: u8, from: Option<u8>, desc: bool, by_u: bool, fields: bool },
}
#[derive(Clone, Debug, Serialize, Deserialize)]
pub struct MetricSpec {
    pub kind: MetricKind,
    pub field: Fld,
    /// in field units (integers for n/u, x/fdiv for f/g, term id or <0 = "NA" for strings)
    pub missing: Option<i16>,
}

#[derive(Clone, Debug, Serialize, Deserialize)]
pub enum TOrder {
    CountDesc,
    CountAsc,
    KeyAsc,
    KeyDesc,
    /// order by the idx-th sub aggregation (if it is an order-able metric, else falls back to key order)
    Sub { idx: u8, asc: bool },
}

#[derive(Clone, Debug, Serialize, Deserialize)]
pub enum TMissing {
    /// a value of the field's own type: term id for strings, number for numerics
    Own(i16),
    /// a fresh string (on numeric columns this is the "special missing aggregation")
    Na,
}

#[derive(Clone, Debug, Serialize, Deserialize)]
pub enum Src {
    Terms { field: Fld, desc: bool, missing_bucket: bool, missing_order: u8 },
    Histogram { field: Fld, interval_q: u8, desc: bool, missing_bucket: bool, missing_order: u8 },
    DateHistogram { interval_ms: u32, desc: bool, missing_bucket: bool, missing_order: u8 },
}

#[derive(Clone, Debug, Serialize, Deserialize)]
pub enum AggKind {
    Metric(MetricSpec),
    Range {
        field: Fld,
        /// cut points in field units (x/fdiv for f/g)
        cuts: Vec<i16>,
        /// add 0.5 to every cut (fractional bounds on integer columns)
        half: bool,
        open_lo: bool,
        open_hi: bool,
        keyed: bool,
        custom_keys: bool,
    },
    Histogram {
        field: Fld,
        /// interval in quarters
        interval_q: u8,
        offset_q: Option<u8>,
        min_doc_count: Option<u8>,
        hard: Option<(i16, i16)>,
        ext: Option<(i16, i16)>,
        keyed: bool,
    },
    DateHistogram {
        /// fixed interval: (number, unit index into UNITS)
        interval: (u16, u8),
        offset: Option<(u16, u8)>,
        min_doc_count: Option<u8>,
        /// bounds as positions on the corpus' date grid
        hard: Option<(i16, i16)>,
        ext: Option<(i16, i16)>,
        keyed: bool,
    },
    Terms {
        field: Fld,
        size: Option<u8>,
        segment_size: Option<u16>,
        order: TOrder,
        min_doc_count: Option<u8>,
        missing: Option<TMissing>,
        show_err: Option<bool>,
    },
    Filter {
        q: Q,
    },
    Composite {
        sources: Vec<Src>,
        size: u8,
        /// request the second page (after = after_key of the first page computed by the reference)
        page2: bool,
    },
}
#[derive(Clone, Debug, Serialize, Deserialize)]
pub struct AggNode {
    pub kind: AggKind,
    pub subs: Vec<AggNode>,
}

pub const UNITS: [(&str, i64); 5] = [("ms", 1), ("s", 1000), ("m", 60_000), ("h", 3_600_000), ("d", 86_400_000)];

pub fn level_name(depth: usize, i: usize) -> String {
    let c = [b'a', b'b', b'c', b'd'][depth.min(3)] as char;
    format!("{c}{i}")
}

/// evaluation environment
pub struct Env<'a> {
    pub corpus: &'a Corpus,
    pub ndocs: usize,
    /// every live document has a value in `u` (top_hits may then sort by it)
    pub u_full: bool,
    /// known finding "bucket aggregations count a multi-valued document once per value" is open:
    /// the reference then follows the per-value reading (and the caller counts the exclusions)
    pub per_value_buckets: bool,
    /// number of (node evaluations) in which a multi-valued document fell into the same bucket twice
    pub dup_in_bucket: std::cell::Cell<u64>,
    /// ... and that bucket aggregation has sub-aggregations (the document is then handed to them twice)
    pub dup_with_subs: std::cell::Cell<u64>,
}

impl AggKind {
    pub fn kind_name(&self) -> &'static str {
        match self {
            AggKind::Metric(m) => match m.kind {
                MetricKind::Avg => "avg",
                MetricKind::Sum => "sum",
                MetricKind::Min => "min",
                MetricKind::Max => "max",
                MetricKind::Count => "value_count",
                MetricKind::Stats => "stats",
                MetricKind::ExtStats { .. } => "extended_stats",
                MetricKind::Percentiles { .. } => "percentiles",
                MetricKind::Cardinality => "cardinality",
                MetricKind::TopHits { .. } => "top_hits",
            },
            AggKind::Range { .. } => "range",
            AggKind::Histogram { .. } => "histogram",
            AggKind::DateHistogram { .. } => "date_histogram",
            AggKind::Terms { .. } => "terms",
            AggKind::Filter { .. } => "filter",
            AggKind::Composite { .. } => "composite",
        }
    }
}

// ------------------------------------------------------------------------------------------------
// effective parameters shared by the request builder and the evaluator

pub fn q_interval(q: u8) -> f64 {
    // 200.. = intervals that are not dyadic rationals: bucket keys `pos * interval + offset` are inexact in f64
    match q {
        200 => 0.1,
        201 => 0.3,
        202 => 0.7,
        203 => 1.1,
        204 => 2.3,
        _ => q.max(1) as f64 / 4.0,
    }
}
pub fn q_fractional(q: u8) -> bool {
    q >= 200
}
/// offset of a histogram request (always smaller than the interval)
pub fn q_offset(interval_q: u8, offset_q: Option<u8>) -> f64 {
    match offset_q {
        None => 0.0,
        Some(o) if q_fractional(interval_q) => (o % 7) as f64 * 0.013,
        Some(o) => (o % interval_q.max(1)) as f64 / 4.0,
    }
}
pub fn range_cuts(c: &Corpus, field: Fld, cuts: &[i16], half: bool) -> Vec<f64> {
    let mut v: Vec<f64> = cuts
        .iter()
        .map(|x| {
            let base = if field.is_int() { *x as f64 } else { c.fval(*x) };
            // u64 columns: bounds below zero have no documented meaning, and a bound of exactly 0 is the same as an
            // open end (tantivy reports it that way)
            let base = if field == Fld::U { base.abs().max(1.0) } else { base };
            if half && field.is_int() {
                base + 0.5
            } else {
                base
            }
        })
        .collect();
    v.sort_by(|a, b| a.partial_cmp(b).unwrap());
    v.dedup();
    v
}
pub fn bound_val(c: &Corpus, field: Fld, x: i16) -> f64 {
    match field {
        Fld::N | Fld::Uid => x as f64,
        Fld::U => (x as f64).abs(),
        _ => c.fval(x),
    }
}
pub fn ordered(b: (i16, i16)) -> (i16, i16) {
    (b.0.min(b.1), b.0.max(b.1))
}
fn sort2(a: f64, b: f64) -> (f64, f64) {
    if a <= b {
        (a, b)
    } else {
        (b, a)
    }
}
/// effective (hard_bounds, extended_bounds) of a histogram in field units.
/// rustdoc: extended_bounds "Cannot be set in conjunction with min_doc_count > 0" and have to be inside hard_bounds
pub fn hist_bounds(map: &dyn Fn(i16) -> f64, hard: Option<(i16, i16)>, ext: Option<(i16, i16)>, min_doc_count: Option<u8>) -> (Option<(f64, f64)>, Option<(f64, f64)>) {
    let hard_b = hard.map(|h| sort2(map(h.0), map(h.1)));
    let mut ext_b = ext.map(|e| sort2(map(e.0), map(e.1)));
    if min_doc_count.unwrap_or(0) > 0 {
        ext_b = None;
    }
    if let (Some(h), Some(e)) = (hard_b, ext_b) {
        ext_b = Some((e.0.max(h.0).min(h.1), e.1.min(h.1).max(h.0)));
    }
    (hard_b, ext_b)
}

/// which sub aggregation (name, property) a terms order refers to; None = not order-able
pub fn sub_order_target(subs: &[AggNode], idx: u8, depth: usize) -> Option<String> {
    if subs.is_empty() {
        return None;
    }
    let i = idx as usize % subs.len();
    let name = level_name(depth + 1, i);
    match &subs[i].kind {
        // only metrics that are never null on an empty set (the position of null metric values in the
        // order is not documented)
        AggKind::Metric(m) if m.field.is_num() => match m.kind {
            MetricKind::Count | MetricKind::Sum => Some(name),
            MetricKind::Stats => Some(format!("{name}.{}", if idx % 2 == 0 { "sum" } else { "count" })),
            _ => None,
        },
        _ => None,
    }
}

#[derive(Clone, Debug, PartialEq)]
pub enum EffOrder {
    Count { asc: bool },
    Key { asc: bool },
    Sub { target: String, asc: bool },
}
pub fn eff_order(order: &TOrder, field: Fld, subs: &[AggNode], depth: usize) -> EffOrder {
    // key order of ip / date keys compares the rendered strings, which is not documented: count order there
    let key_ok = !matches!(field, Fld::Ip | Fld::D);
    match order {
        TOrder::CountDesc => EffOrder::Count { asc: false },
        TOrder::CountAsc => EffOrder::Count { asc: true },
        TOrder::KeyAsc if key_ok => EffOrder::Key { asc: true },
        TOrder::KeyDesc if key_ok => EffOrder::Key { asc: false },
        TOrder::KeyAsc => EffOrder::Count { asc: true },
        TOrder::KeyDesc => EffOrder::Count { asc: false },
        TOrder::Sub { idx, asc } => match sub_order_target(subs, *idx, depth) {
            Some(target) => EffOrder::Sub { target, asc: *asc },
            None if key_ok => EffOrder::Key { asc: *asc },
            None => EffOrder::Count { asc: *asc },
        },
    }
}

pub fn eff_size(size: Option<u8>) -> usize {
    size.map(|s| s.max(1) as usize).unwrap_or(10)
}
pub fn eff_segment_size(size: Option<u8>, segment_size: Option<u16>) -> usize {
    // rustdoc: "Defaults to 10 * size", and the request normalisation keeps segment_size >= size
    let sz = eff_size(size);
    segment_size.map(|s| s.max(1) as usize).unwrap_or(sz * 10).max(sz)
}

/// the missing key of a terms aggregation as JSON + as model key
pub fn terms_missing_key(c: &Corpus, field: Fld, m: &TMissing) -> TKey {
    match m {
        TMissing::Na => TKey::Str("NA".to_string()),
        TMissing::Own(x) => match field {
            Fld::S => TKey::Str(term_of((x.unsigned_abs()).min(c.vocab.max(1) + 1))),
            Fld::Cat => TKey::Str(cat_of((x.unsigned_abs() % 7) as u8)),
            Fld::N | Fld::Uid => TKey::Num(*x as f64),
            Fld::U => TKey::Num(x.unsigned_abs() as f64),
            Fld::F | Fld::G => TKey::Num(c.fval(*x)),
            // no own-typed missing for ip / date: a fresh string
            Fld::Ip | Fld::D => TKey::Str("NA".to_string()),
        },
    }
}

/// bucket key of the terms aggregation in the model
#[derive(Clone, Debug)]
pub enum TKey {
    Num(f64),
    Str(String),
}
impl PartialEq for TKey {
    fn eq(&self, o: &Self) -> bool {
        self.cmp(o) == std::cmp::Ordering::Equal
    }
}
impl Eq for TKey {}
impl PartialOrd for TKey {
    fn partial_cmp(&self, o: &Self) -> Option<std::cmp::Ordering> {
        Some(self.cmp(o))
    }
}
impl Ord for TKey {
    fn cmp(&self, o: &Self) -> std::cmp::Ordering {
        match (self, o) {
            (TKey::Num(a), TKey::Num(b)) => a.partial_cmp(b).unwrap_or(std::cmp::Ordering::Equal),
            (TKey::Str(a), TKey::Str(b)) => a.as_bytes().cmp(b.as_bytes()),
            (TKey::Num(_), TKey::Str(_)) => std::cmp::Ordering::Less,
            (TKey::Str(_), TKey::Num(_)) => std::cmp::Ordering::Greater,
        }
    }
}
impl TKey {
    pub fn json(&self) -> Value {
        match self {
            TKey::Num(x) => num_json(*x),
            TKey::Str(s) => json!(s),
        }
    }
}
/// integral values are rendered as integers (the comparator compares numbers numerically anyway)
pub fn num_json(x: f64) -> Value {
    if x.fract() == 0.0 && x.abs() < 9e15 {
        if x >= 0.0 {
            json!(x as u64)
        } else {
            json!(x as i64)
        }
    } else {
        json!(x)
    }
}

pub fn format_date_ns(ns: i64) -> String {
    // RFC 3339 rendering (tantivy uses the same `time` crate; the format itself is the standard)
    time::OffsetDateTime::from_unix_timestamp_nanos(ns as i128)
        .ok()
        .and_then(|d| d.format(&time::format_description::well_known::Rfc3339).ok())
        .unwrap_or_else(|| format!("<unformattable {ns}>"))
}

pub fn v_to_tkey(v: &V) -> TKey {
    match v {
        V::I(x) => TKey::Num(*x as f64),
        V::U(x) => TKey::Num(*x as f64),
        V::F(x) => TKey::Num(*x),
        V::Str(s) => TKey::Str(s.clone()),
        V::DateMs(ms) => TKey::Str(format_date_ns(ms * 1_000_000)),
        V::Ip(ip) => TKey::Str(ip_key(ip)),
    }
}

// ------------------------------------------------------------------------------------------------
// request JSON

pub fn q_matches(q: &Q, d: &DocM, ndocs: usize) -> bool {
    let in_range = |lo: u16, hi: u16| {
        let (a, b) = uid_range(lo, hi, ndocs);
        d.uid >= a && d.uid <= b
    };
    let is_cat = |c: u8| d.cat.as_deref() == Some(cat_of(c).as_str());
    match q {
        Q::All => true,
        Q::Cat(c) => is_cat(*c),
        Q::UidRange(lo, hi) => in_range(*lo, *hi),
        Q::CatOrUid(c, lo, hi) => is_cat(*c) || in_range(*lo, *hi),
        Q::UidNotCat(lo, hi, c) => in_range(*lo, *hi) && !is_cat(*c),
    }
}
pub fn uid_range(lo: u16, hi: u16, ndocs: usize) -> (u64, u64) {
    let a = crate::engine::idx(lo, ndocs + 1) as u64;
    let b = crate::engine::idx(hi, ndocs + 1) as u64;
    (a.min(b), a.max(b))
}
/// query-string form (used by `filter` aggregations; grammar: `field:term`, `field:[a TO b]` inclusive, `OR`, `+must -must_not`)
pub fn q_string(q: &Q, ndocs: usize) -> String {
    let r = |lo: u16, hi: u16| {
        let (a, b) = uid_range(lo, hi, ndocs);
        format!("uid:[{a} TO {b}]")
    };
    match q {
        Q::All => "*".to_string(),
        Q::Cat(c) => format!("cat:{}", cat_of(*c)),
        Q::UidRange(lo, hi) => r(*lo, *hi),
        Q::CatOrUid(c, lo, hi) => format!("cat:{} OR {}", cat_of(*c), r(*lo, *hi)),
        Q::UidNotCat(lo, hi, c) => format!("+{} -cat:{}", r(*lo, *hi), cat_of(*c)),
    }
}

fn metric_missing_json(c: &Corpus, m: &MetricSpec) -> Option<Value> {
    let x = m.missing?;
    match m.field {
        Fld::N | Fld::Uid => Some(json!(x as f64)),
        Fld::U => Some(json!(x.unsigned_abs() as f64)),
        Fld::F | Fld::G => Some(json!(c.fval(x))),
        Fld::S | Fld::Cat => match m.kind {
            MetricKind::Cardinality => Some(metric_missing_str(c, m.field, x).into()),
            _ => None,
        },
        _ => None,
    }
}
fn metric_missing_str(c: &Corpus, f: Fld, x: i16) -> String {
    if x < 0 {
        "NA".to_string()
    } else if f == Fld::S {
        term_of((x as u16).min(c.vocab.max(1) + 1))
    } else {
        cat_of((x % 7) as u8)
    }
}

pub fn top_hits_sort(by_u: bool, u_full: bool, desc: bool) -> Vec<(Fld, bool)> {
    let mut v = vec![];
    if by_u && u_full {
        // the first key may tie, the second (uid) is unique; mixed directions
        v.push((Fld::U, !desc));
    }
    v.push((Fld::Uid, desc));
    v
}

pub struct ReqCtx<'a> {
    pub corpus: &'a Corpus,
    pub ndocs: usize,
    /// every document has a value in `u` (top_hits may sort by it)
    pub u_full: bool,
}

pub fn aggs_json(nodes: &[AggNode], depth: usize, rc: &ReqCtx, after: &dyn Fn(&[usize]) -> Option<Value>, path: &mut Vec<usize>) -> Value {
    let mut m = Map::new();
    for (i, n) in nodes.iter().enumerate() {
        path.push(i);
        m.insert(level_name(depth, i), node_json(n, depth, rc, after, path));
        path.pop();
    }
    Value::Object(m)
}

fn node_json(n: &AggNode, depth: usize, rc: &ReqCtx, after: &dyn Fn(&[usize]) -> Option<Value>, path: &mut Vec<usize>) -> Value {
    let c = rc.corpus;
    let mut o = Map::new();
    match &n.kind {
        AggKind::Metric(m) => {
            let mut b = Map::new();
            let name = n.kind.kind_name();
            if let MetricKind::TopHits { size, from, desc, by_u, fields } = &m.kind {
                b.insert("size".into(), json!(*size));
                if let Some(f) = from {
                    b.insert("from".into(), json!(*f));
                }
                let sort: Vec<Value> =
                    top_hits_sort(*by_u, rc.u_full, *desc).iter().map(|(f, d)| json!({ f.name(): if *d { "desc" } else { "asc" } })).collect();
                b.insert("sort".into(), json!(sort));
                if *fields {
                    b.insert("docvalue_fields".into(), json!(["uid", "n"]));
                }
            } else {
                b.insert("field".into(), json!(m.field.name()));
                if let Some(mv) = metric_missing_json(c, m) {
                    b.insert("missing".into(), mv);
                }
                match &m.kind {
                    MetricKind::ExtStats { sigma: Some(s) } => {
                        b.insert("sigma".into(), json!(*s as f64 / 2.0));
                    }
                    MetricKind::Percentiles { percents, keyed } => {
                        if let Some(p) = percents {
                            b.insert("percents".into(), json!(p.iter().map(|x| (*x).min(100) as f64).collect::<Vec<_>>()));
                        }
                        b.insert("keyed".into(), json!(*keyed));
                    }
                    _ => {}
                }
            }
            o.insert(name.into(), Value::Object(b));
        }
        AggKind::Range { field, cuts, half, open_lo, open_hi, keyed, custom_keys } => {
            let cs = range_cuts(c, *field, cuts, *half);
            let mut ranges = vec![];
            let mut k = 0;
            let mut mk = |mut r: Map<String, Value>| {
                if *custom_keys {
                    r.insert("key".into(), json!(format!("k{k}")));
                }
                k += 1;
                Value::Object(r)
            };
            if *open_lo || cs.len() == 1 {
                let mut r = Map::new();
                r.insert("to".into(), json!(cs[0]));
                ranges.push(mk(r));
            }
            for w in cs.windows(2) {
                let mut r = Map::new();
                r.insert("from".into(), json!(w[0]));
                r.insert("to".into(), json!(w[1]));
                ranges.push(mk(r));
            }
            if *open_hi {
                let mut r = Map::new();
                r.insert("from".into(), json!(cs[cs.len() - 1]));
                ranges.push(mk(r));
            }
            o.insert("range".into(), json!({"field": field.name(), "ranges": ranges, "keyed": keyed}));
        }
        AggKind::Histogram { field, interval_q, offset_q, min_doc_count, hard, ext, keyed } => {
            let mut b = Map::new();
            b.insert("field".into(), json!(field.name()));
            b.insert("interval".into(), json!(q_interval(*interval_q)));
            if offset_q.is_some() {
                b.insert("offset".into(), json!(q_offset(*interval_q, *offset_q)));
            }
            if let Some(m) = min_doc_count {
                b.insert("min_doc_count".into(), json!(*m));
            }
            let (hard_b, ext_b) = hist_bounds(&|x| bound_val(c, *field, x), *hard, *ext, *min_doc_count);
            if let Some(h) = hard_b {
                b.insert("hard_bounds".into(), json!({"min": h.0, "max": h.1}));
            }
            if let Some(e) = ext_b {
                b.insert("extended_bounds".into(), json!({"min": e.0, "max": e.1}));
            }
            b.insert("keyed".into(), json!(*keyed));
            o.insert("histogram".into(), Value::Object(b));
        }
        AggKind::DateHistogram { interval, offset, min_doc_count, hard, ext, keyed } => {
            let mut b = Map::new();
            b.insert("field".into(), json!("d"));
            let (ims, istr) = date_interval(c, *interval);
            b.insert("fixed_interval".into(), json!(istr));
            if let Some(off) = date_offset(c, *offset, ims) {
                b.insert("offset".into(), json!(off.1));
            }
            if let Some(m) = min_doc_count {
                b.insert("min_doc_count".into(), json!(*m));
            }
            let (hard_b, ext_b) = hist_bounds(&|x| c.dval(x as i64) as f64, *hard, *ext, *min_doc_count);
            if let Some(h) = hard_b {
                b.insert("hard_bounds".into(), json!({"min": h.0, "max": h.1}));
            }
            if let Some(e) = ext_b {
                b.insert("extended_bounds".into(), json!({"min": e.0, "max": e.1}));
            }
            b.insert("keyed".into(), json!(*keyed));
            o.insert("date_histogram".into(), Value::Object(b));
        }
        AggKind::Terms { field, size, segment_size, order, min_doc_count, missing, show_err } => {
            let mut b = Map::new();
            b.insert("field".into(), json!(field.name()));
            if let Some(s) = size {
                b.insert("size".into(), json!((*s).max(1)));
            }
            if let Some(s) = segment_size {
                b.insert("segment_size".into(), json!((*s).max(1)));
            }
            match eff_order(order, *field, &n.subs, depth) {
                EffOrder::Count { asc: false } => {
                    if !matches!(order, TOrder::CountDesc) {
                        b.insert("order".into(), json!({"_count": "desc"}));
                    }
                }
                EffOrder::Count { asc: true } => {
                    b.insert("order".into(), json!({"_count": "asc"}));
                }
                EffOrder::Key { asc } => {
                    b.insert("order".into(), json!({"_key": if asc { "asc" } else { "desc" }}));
                }
                EffOrder::Sub { target, asc } => {
                    b.insert("order".into(), json!({ target: if asc { "asc" } else { "desc" } }));
                }
            }
            if let Some(m) = min_doc_count {
                b.insert("min_doc_count".into(), json!(*m));
            }
            if let Some(m) = missing {
                b.insert("missing".into(), terms_missing_key(c, *field, m).json());
            }
            if let Some(s) = show_err {
                b.insert("show_term_doc_count_error".into(), json!(*s));
            }
            o.insert("terms".into(), Value::Object(b));
        }
        AggKind::Filter { q } => {
            o.insert("filter".into(), json!(q_string(q, rc.ndocs)));
        }
        AggKind::Composite { sources, size, page2 } => {
            let mut srcs = vec![];
            for (i, s) in sources.iter().enumerate() {
                let name = format!("s{i}");
                let mo = |x: u8| ["default", "first", "last"][x as usize % 3];
                let ord = |d: bool| if d { "desc" } else { "asc" };
                let v = match s {
                    Src::Terms { field, desc, missing_bucket, missing_order } => {
                        json!({"terms": {"field": field.name(), "order": ord(*desc), "missing_bucket": missing_bucket, "missing_order": mo(*missing_order)}})
                    }
                    Src::Histogram { field, interval_q, desc, missing_bucket, missing_order } => {
                        json!({"histogram": {"field": field.name(), "interval": q_interval(*interval_q), "order": ord(*desc), "missing_bucket": missing_bucket, "missing_order": mo(*missing_order)}})
                    }
                    Src::DateHistogram { interval_ms, desc, missing_bucket, missing_order } => {
                        json!({"date_histogram": {"field": "d", "fixed_interval": format!("{}ms", (*interval_ms).max(1)), "order": ord(*desc), "missing_bucket": missing_bucket, "missing_order": mo(*missing_order)}})
                    }
                };
                srcs.push(json!({ name: v }));
            }
            let mut b = Map::new();
            b.insert("sources".into(), json!(srcs));
            b.insert("size".into(), json!((*size).max(1)));
            if *page2 {
                if let Some(a) = after(path) {
                    b.insert("after".into(), a);
                }
            }
            o.insert("composite".into(), Value::Object(b));
        }
    }
    if !n.subs.is_empty() && !matches!(n.kind, AggKind::Metric(_)) {
        o.insert("aggs".into(), aggs_json(&n.subs, depth + 1, rc, after, path));
    }
    Value::Object(o)
}

/// fixed interval of a date histogram: a multiple of a quarter of the corpus' date grid step (so that the number of
/// buckets stays bounded), rendered in the largest unit that divides it (or in ms)
pub fn date_interval(c: &Corpus, i: (u16, u8)) -> (i64, String) {
    let step = DSTEPS_MS[c.dstep as usize % DSTEPS_MS.len()];
    let ms = (step * i.0.max(1) as i64 / 4).max(1);
    (ms, render_ms(ms, i.1 % 2 == 0))
}
fn render_ms(ms: i64, largest_unit: bool) -> String {
    if largest_unit {
        for (name, unit) in UNITS.iter().rev() {
            if ms % unit == 0 && ms > 0 {
                return format!("{}{name}", ms / unit);
            }
        }
    }
    format!("{ms}ms")
}
/// rustdoc: "Offset has to be in the range [0, interval)"
pub fn date_offset(c: &Corpus, o: Option<(u16, u8)>, interval_ms: i64) -> Option<(i64, String)> {
    let o = o?;
    let step = DSTEPS_MS[c.dstep as usize % DSTEPS_MS.len()];
    let ms = (step * o.0 as i64 / 8).rem_euclid(interval_ms.max(1));
    Some((ms, render_ms(ms.max(0), o.1 % 2 == 0 && ms > 0)))
}

// ------------------------------------------------------------------------------------------------
// the direct evaluator

pub fn eval_aggs(nodes: &[AggNode], depth: usize, docs: &[&DocM], env: &Env, path: &mut Vec<usize>, after: &dyn Fn(&[usize]) -> Option<Vec<CKey>>) -> Map<String, Value> {
    let mut m = Map::new();
    for (i, n) in nodes.iter().enumerate() {
        path.push(i);
        m.insert(level_name(depth, i), eval_node(n, depth, docs, env, path, after));
        path.pop();
    }
    m
}

fn metric_values(m: &MetricSpec, docs: &[&DocM], c: &Corpus) -> Vec<f64> {
    // rustdoc (all metrics): "missing ... By default they will be ignored but it is also possible to treat
    // them as if they had a value"; values are "extracted from the aggregated documents" (every value of a
    // multi-valued document)
    let missing = m.missing.and_then(|x| match m.field {
        Fld::N | Fld::Uid => Some(x as f64),
        Fld::U => Some(x.unsigned_abs() as f64),
        Fld::F | Fld::G => Some(c.fval(x)),
        _ => None,
    });
    let mut out = vec![];
    for d in docs {
        let v = nums(d, m.field);
        if v.is_empty() {
            if let Some(mv) = missing {
                out.push(mv);
            }
        } else {
            out.extend(v);
        }
    }
    out
}

fn opt(x: Option<f64>) -> Value {
    match x {
        Some(v) => json!(v),
        None => Value::Null,
    }
}

fn eval_metric(m: &MetricSpec, docs: &[&DocM], env: &Env) -> Value {
    let c = env.corpus;
    match &m.kind {
        MetricKind::Cardinality => {
            let mut set: BTreeSet<TKey> = BTreeSet::new();
            for d in docs {
                let vs = vals(d, m.field);
                if vs.is_empty() {
                    if let Some(x) = m.missing {
                        match m.field {
                            Fld::S | Fld::Cat => {
                                set.insert(TKey::Str(metric_missing_str(c, m.field, x)));
                            }
                            Fld::N | Fld::Uid => {
                                set.insert(TKey::Num(x as f64));
                            }
                            Fld::U => {
                                set.insert(TKey::Num(x.unsigned_abs() as f64));
                            }
                            Fld::F | Fld::G => {
                                set.insert(TKey::Num(c.fval(x)));
                            }
                            _ => {}
                        }
                    }
                }
                for v in vs {
                    set.insert(v_to_tkey(&v));
                }
            }
            json!({"value": set.len() as f64})
        }
        MetricKind::TopHits { size, from, desc, by_u, fields } => {
            // rustdoc: "keeping track of the most relevant document being aggregated, in terms of a sort criterion
            // that can consist of multiple fields and their sort-orders"; `from` skips, `size` limits
            let sort = top_hits_sort(*by_u, env.u_full, *desc);
            let mut ds: Vec<&DocM> = docs.to_vec();
            ds.sort_by(|a, b| {
                for (f, d) in &sort {
                    let ka = if *f == Fld::U { a.u.unwrap_or(0) } else { a.uid };
                    let kb = if *f == Fld::U { b.u.unwrap_or(0) } else { b.uid };
                    let o = ka.cmp(&kb);
                    let o = if *d { o.reverse() } else { o };
                    if o != std::cmp::Ordering::Equal {
                        return o;
                    }
                }
                std::cmp::Ordering::Equal
            });
            let from = from.unwrap_or(0) as usize;
            let hits: Vec<Value> = ds
                .iter()
                .skip(from)
                .take(*size as usize)
                .map(|d| {
                    let s: Vec<Value> = sort.iter().map(|(f, _)| json!(if *f == Fld::U { d.u.unwrap_or(0) } else { d.uid })).collect();
                    let mut h = Map::new();
                    h.insert("sort".into(), json!(s));
                    if *fields {
                        h.insert("docvalue_fields".into(), json!({"uid": [d.uid], "n": d.n}));
                    }
                    Value::Object(h)
                })
                .collect();
            json!({ "hits": hits })
        }
        MetricKind::Count if m.field.is_str() || matches!(m.field, Fld::Ip | Fld::D) => {
            // rustdoc value_count: "counts the number of values that are extracted from the aggregated documents"
            let n: usize = docs.iter().map(|d| vals(d, m.field).len()).sum();
            json!({"value": n as f64})
        }
        _ => {
            let v = metric_values(m, docs, c);
            let count = v.len();
            let sum: f64 = v.iter().sum();
            let min = v.iter().cloned().fold(None, |a: Option<f64>, x| Some(a.map_or(x, |a| a.min(x))));
            let max = v.iter().cloned().fold(None, |a: Option<f64>, x| Some(a.map_or(x, |a| a.max(x))));
            let avg = if count > 0 { Some(sum / count as f64) } else { None };
            match &m.kind {
                MetricKind::Avg => json!({"value": opt(avg)}),
                // rustdoc SumAggregation::none_if_no_match: default "the result returns \"value\": 0"
                MetricKind::Sum => json!({"value": sum}),
                MetricKind::Min => json!({"value": opt(min)}),
                MetricKind::Max => json!({"value": opt(max)}),
                MetricKind::Count => json!({"value": count as f64}),
                MetricKind::Stats => json!({"count": count, "sum": sum, "min": opt(min), "max": opt(max), "avg": opt(avg)}),
                MetricKind::ExtStats { sigma } => {
                    let sigma = sigma.map(|s| s as f64 / 2.0).unwrap_or(2.0);
                    let sq: f64 = v.iter().map(|x| x * x).sum();
                    let (var, var_s) = if count > 1 {
                        let mean = avg.unwrap();
                        let m2: f64 = v.iter().map(|x| (x - mean) * (x - mean)).sum();
                        (Some(m2 / count as f64), Some(m2 / (count - 1) as f64))
                    } else {
                        (None, None)
                    };
                    let sd = var.map(f64::sqrt);
                    let sd_s = var_s.map(f64::sqrt);
                    let bounds = match (sd, sd_s, avg) {
                        (Some(sd), Some(sd_s), Some(mean)) => json!({
                            "upper": mean + sd * sigma, "lower": mean - sd * sigma,
                            "upper_sampling": mean + sd_s * sigma, "lower_sampling": mean - sd_s * sigma,
                            "upper_population": mean + sd * sigma, "lower_population": mean - sd * sigma,
                        }),
                        _ => Value::Null,
                    };
                    json!({
                        "count": count, "sum": sum, "min": opt(min), "max": opt(max), "avg": opt(avg),
                        "sum_of_squares": if count > 0 { json!(sq) } else { Value::Null },
                        "variance": opt(var), "variance_population": opt(var), "variance_sampling": opt(var_s),
                        "std_deviation": opt(sd), "std_deviation_population": opt(sd), "std_deviation_sampling": opt(sd_s),
                        "std_deviation_bounds": bounds,
                    })
                }
                MetricKind::Percentiles { percents, keyed } => {
                    let ps: Vec<f64> = match percents {
                        Some(p) => p.iter().map(|x| (*x).min(100) as f64).collect(),
                        None => vec![1.0, 5.0, 25.0, 50.0, 75.0, 95.0, 99.0],
                    };
                    let mut sorted = v.clone();
                    sorted.sort_by(|a, b| a.partial_cmp(b).unwrap());
                    let bound = |p: f64| -> Value {
                        if sorted.is_empty() {
                            return Value::Null;
                        }
                        // "the value below which p% of the data falls": the order statistics around rank p*(n-1)
                        let r = p / 100.0 * (sorted.len() - 1) as f64;
                        let lo = sorted[(r.floor() as usize).min(sorted.len() - 1)];
                        let hi = sorted[(r.ceil() as usize).min(sorted.len() - 1)];
                        json!({"__lo": lo, "__hi": hi})
                    };
                    if *keyed {
                        let mut mm = Map::new();
                        for p in &ps {
                            let mut k = p.to_string();
                            if !k.contains('.') {
                                k.push_str(".0");
                            }
                            mm.insert(k, bound(*p));
                        }
                        json!({ "values": mm })
                    } else {
                        json!({"values": ps.iter().map(|p| json!({"key": p, "value": bound(*p)})).collect::<Vec<_>>()})
                    }
                }
                _ => unreachable!(),
            }
        }
    }
}

/// documents of a bucket: with the per-value reading a document appears once per value that falls into it
fn push_doc<'a>(bucket: &mut Vec<&'a DocM>, d: &'a DocM, times: usize, env: &Env, has_subs: bool) {
    if times == 0 {
        return;
    }
    if times > 1 {
        env.dup_in_bucket.set(env.dup_in_bucket.get() + 1);
        if has_subs {
            env.dup_with_subs.set(env.dup_with_subs.get() + 1);
        }
    }
    let k = if env.per_value_buckets { times } else { 1 };
    for _ in 0..k {
        bucket.push(d);
    }
}

fn with_subs(mut o: Map<String, Value>, n: &AggNode, depth: usize, docs: &[&DocM], env: &Env, path: &mut Vec<usize>, after: &dyn Fn(&[usize]) -> Option<Vec<CKey>>) -> Value {
    for (k, v) in eval_aggs(&n.subs, depth + 1, docs, env, path, after) {
        o.insert(k, v);
    }
    Value::Object(o)
}

fn eval_node(n: &AggNode, depth: usize, docs: &[&DocM], env: &Env, path: &mut Vec<usize>, after: &dyn Fn(&[usize]) -> Option<Vec<CKey>>) -> Value {
    let c = env.corpus;
    match &n.kind {
        AggKind::Metric(m) => eval_metric(m, docs, env),
        AggKind::Filter { q } => {
            // rustdoc: "doc_count: Number of documents matching the filter; Sub-aggregation results computed on the
            // filtered document set"
            let sel: Vec<&DocM> = docs.iter().cloned().filter(|d| q_matches(q, d, env.ndocs)).collect();
            let mut o = Map::new();
            o.insert("doc_count".into(), json!(sel.len()));
            with_subs(o, n, depth, &sel, env, path, after)
        }
        AggKind::Range { field, cuts, half, keyed, custom_keys, open_lo, open_hi } => {
            // rustdoc: "includes the from value and excludes the to value for each range"; "Two special buckets will
            // automatically be created to cover the whole range of values"
            let cs = range_cuts(c, *field, cuts, *half);
            let mut bounds: Vec<(Option<f64>, Option<f64>)> = vec![(None, Some(cs[0]))];
            for w in cs.windows(2) {
                bounds.push((Some(w[0]), Some(w[1])));
            }
            bounds.push((Some(cs[cs.len() - 1]), None));
            // custom keys are numbered over the *user provided* ranges only
            let user_first = *open_lo || cs.len() == 1;
            let mut buckets: Vec<Value> = vec![];
            let mut next_user = 0usize;
            for (bi, (from, to)) in bounds.iter().enumerate() {
                let mut sel: Vec<&DocM> = vec![];
                for d in docs {
                    let times = nums(d, *field).iter().filter(|v| from.map_or(true, |f| **v >= f) && to.map_or(true, |t| **v < t)).count();
                    push_doc(&mut sel, d, times, env, !n.subs.is_empty());
                }
                let mut o = Map::new();
                let fs = |x: &Option<f64>| x.map(|v| v.to_string()).unwrap_or_else(|| "*".to_string());
                let mut key = format!("{}-{}", fs(from), fs(to));
                let mut custom = false;
                let user_provided = if bi == 0 {
                    user_first
                } else if bi == bounds.len() - 1 {
                    *open_hi
                } else {
                    true
                };
                if user_provided {
                    if *custom_keys {
                        key = format!("k{next_user}");
                        custom = true;
                    }
                    next_user += 1;
                }
                o.insert("key".into(), json!(key));
                o.insert("__custom_key".into(), json!(custom));
                o.insert("doc_count".into(), json!(sel.len()));
                if let Some(f) = from {
                    o.insert("from".into(), json!(f));
                }
                if let Some(t) = to {
                    o.insert("to".into(), json!(t));
                }
                buckets.push(with_subs(o, n, depth, &sel, env, path, after));
            }
            json!({"buckets": buckets, "__keyed": keyed})
        }
        AggKind::Histogram { field, interval_q, offset_q, min_doc_count, hard, ext, keyed } => {
            let interval = q_interval(*interval_q);
            let offset = q_offset(*interval_q, *offset_q);
            let (hard_b, ext_b) = hist_bounds(&|x| bound_val(c, *field, x), *hard, *ext, *min_doc_count);
            let value_of = |d: &DocM| nums(d, *field);
            let bs = histogram_buckets(docs, &value_of, interval, offset, hard_b, ext_b, min_doc_count.unwrap_or(0) as u64, env, !n.subs.is_empty());
            let buckets: Vec<Value> = bs
                .into_iter()
                .map(|(key, sel)| {
                    let mut o = Map::new();
                    o.insert("key".into(), json!(key));
                    o.insert("doc_count".into(), json!(sel.len()));
                    with_subs(o, n, depth, &sel, env, path, after)
                })
                .collect();
            json!({"buckets": buckets, "__keyed": keyed})
        }
        AggKind::DateHistogram { interval, offset, min_doc_count, hard, ext, keyed } => {
            // rustdoc: "similar to HistogramAggregation ... values are rounded down into the closest bucket. For this
            // calculation all fastfield values are converted to f64" (nanoseconds), bounds "in millisecond precision",
            // keys in milliseconds + key_as_string
            let (ims, _) = date_interval(c, *interval);
            let off_ms = date_offset(c, *offset, ims).map(|o| o.0).unwrap_or(0);
            let (hard_b, ext_b) = hist_bounds(&|x| c.dval(x as i64) as f64, *hard, *ext, *min_doc_count);
            // exact integer arithmetic on milliseconds (the values are whole milliseconds)
            let pos_of = |ms: i64| (ms - off_ms).div_euclid(ims);
            let mut map: BTreeMap<i64, Vec<&DocM>> = BTreeMap::new();
            for d in docs {
                if let Some(ms) = d.d_ms {
                    if let Some((lo, hi)) = hard_b {
                        if (ms as f64) < lo || (ms as f64) > hi {
                            continue;
                        }
                    }
                    map.entry(pos_of(ms)).or_default().push(d);
                }
            }
            let mdc = min_doc_count.unwrap_or(0) as u64;
            let bs: Vec<(i64, Vec<&DocM>)> = if mdc > 0 {
                map.into_iter().filter(|(_, v)| v.len() as u64 >= mdc).collect()
            } else {
                let mut lo = map.keys().next().cloned();
                let mut hi = map.keys().next_back().cloned();
                if let Some((emin, emax)) = ext_b {
                    let (pl, ph) = (pos_of(emin as i64), pos_of(emax as i64));
                    lo = Some(lo.map_or(pl, |l| l.min(pl)));
                    hi = Some(hi.map_or(ph, |h| h.max(ph)));
                }
                match (lo, hi) {
                    (Some(lo), Some(hi)) => (lo..=hi).map(|p| (p, map.remove(&p).unwrap_or_default())).collect(),
                    _ => vec![],
                }
            };
            let buckets: Vec<Value> = bs
                .into_iter()
                .map(|(p, sel)| {
                    let key_ms = p * ims + off_ms;
                    let mut o = Map::new();
                    o.insert("key".into(), json!(key_ms as f64));
                    o.insert("key_as_string".into(), json!(format_date_ns(key_ms * 1_000_000)));
                    o.insert("doc_count".into(), json!(sel.len()));
                    with_subs(o, n, depth, &sel, env, path, after)
                })
                .collect();
            json!({"buckets": buckets, "__keyed": keyed})
        }
        AggKind::Terms { field, size, order, min_doc_count, missing, show_err, .. } => {
            // rustdoc: "Creates a bucket for every unique term and counts the number of occurrences"; changelog 0.26:
            // "deduplicate doc counts in term aggregation for multi-valued fields" (a document counts once per
            // distinct term); missing: "treat them as if they had a value"; "min_doc_count ... Defaults to 1";
            // "By default, the top 10 terms with the most documents are returned"
            let mkey = missing.as_ref().map(|m| terms_missing_key(c, *field, m));
            let mut map: BTreeMap<TKey, Vec<&DocM>> = BTreeMap::new();
            for d in docs {
                let vs = vals(d, *field);
                let mut keys: BTreeSet<TKey> = vs.iter().map(v_to_tkey).collect();
                if vs.is_empty() {
                    if let Some(k) = &mkey {
                        keys.insert(k.clone());
                    }
                }
                for k in keys {
                    map.entry(k).or_default().push(d);
                }
            }
            let total: u64 = map.values().map(|v| v.len() as u64).sum();
            let mdc = min_doc_count.map(|m| m as u64).unwrap_or(1);
            let eo = eff_order(order, *field, &n.subs, depth);
            let mut entries: Vec<(TKey, Vec<&DocM>, Value, f64)> = map
                .into_iter()
                .filter(|(_, v)| v.len() as u64 >= mdc)
                .map(|(k, sel)| {
                    let mut o = Map::new();
                    o.insert("key".into(), k.json());
                    o.insert("doc_count".into(), json!(sel.len()));
                    let v = with_subs(o, n, depth, &sel, env, path, after);
                    let okey = match &eo {
                        EffOrder::Count { .. } => sel.len() as f64,
                        EffOrder::Key { .. } => 0.0,
                        EffOrder::Sub { target, .. } => sub_value(&v, target).unwrap_or(0.0),
                    };
                    (k, sel, v, okey)
                })
                .collect();
            // canonical tie order: key ascending
            match &eo {
                EffOrder::Key { asc } => {
                    entries.sort_by(|a, b| if *asc { a.0.cmp(&b.0) } else { b.0.cmp(&a.0) });
                }
                EffOrder::Count { asc } | EffOrder::Sub { asc, .. } => {
                    entries.sort_by(|a, b| {
                        let o = a.3.partial_cmp(&b.3).unwrap();
                        let o = if *asc { o } else { o.reverse() };
                        o.then(a.0.cmp(&b.0))
                    });
                }
            }
            let k = eff_size(*size);
            let tie_cut = entries.len() > k && !matches!(eo, EffOrder::Key { .. }) && close_f(entries[k - 1].3, entries[k].3);
            let shown: u64 = entries.iter().take(k).map(|e| e.1.len() as u64).sum();
            let passing: u64 = entries.iter().map(|e| e.1.len() as u64).sum();
            let all_keys: Vec<Value> = entries.iter().map(|e| json!({"key": e.0.json(), "doc_count": e.1.len()})).collect();
            let buckets: Vec<Value> = entries.into_iter().take(k).map(|e| e.2).collect();
            let show = show_err.unwrap_or(matches!(eo, EffOrder::Count { asc: false }));
            let mut o = Map::new();
            o.insert("buckets".into(), json!(buckets));
            // "sum_other_doc_count is the number of documents that didn't make it into the top size terms"
            o.insert("sum_other_doc_count".into(), json!(if mdc <= 1 { total - shown } else { passing - shown }));
            o.insert("__sum_other_checked".into(), json!(mdc <= 1));
            if show {
                o.insert("doc_count_error_upper_bound".into(), json!(0));
            }
            o.insert("__tie_cut".into(), json!(tie_cut));
            o.insert("__all".into(), json!(all_keys));
            o.insert("__total".into(), json!(total));
            Value::Object(o)
        }
        AggKind::Composite { sources, size, page2 } => {
            let after_key: Option<Vec<CKey>> = if *page2 { after(path) } else { None };
            eval_composite(n, depth, sources, (*size).max(1) as usize, after_key, docs, env, path, after)
        }
    }
}

pub fn close_f(a: f64, b: f64) -> bool {
    a == b || (a - b).abs() <= 1e-9 * a.abs().max(b.abs()).max(1.0)
}

/// value of the order target `name[.prop]` inside a bucket object
pub fn sub_value(bucket: &Value, target: &str) -> Option<f64> {
    let (name, prop) = target.split_once('.').unwrap_or((target, ""));
    let sub = bucket.get(name)?;
    if prop.is_empty() {
        sub.get("value")?.as_f64()
    } else {
        sub.get(prop)?.as_f64()
    }
}

/// rustdoc HistogramAggregation: key = `((val - offset) / interval).floor() * interval + offset` in f64;
/// hard_bounds "Limits the data range to [min, max] closed interval"; "By default buckets are returned between
/// the min and max value of the documents, including empty buckets. Setting min_doc_count to != 0 will filter
/// empty buckets"; extended_bounds "can only be used to extend the value range"
#[allow(clippy::too_many_arguments)]
fn histogram_buckets<'a>(
    docs: &[&'a DocM],
    value_of: &dyn Fn(&DocM) -> Vec<f64>,
    interval: f64,
    offset: f64,
    hard: Option<(f64, f64)>,
    ext: Option<(f64, f64)>,
    min_doc_count: u64,
    env: &Env,
    has_subs: bool,
) -> Vec<(f64, Vec<&'a DocM>)> {
    let pos_of = |v: f64| ((v - offset) / interval).floor();
    let mut map: BTreeMap<i64, Vec<&DocM>> = BTreeMap::new();
    for d in docs {
        let mut per: BTreeMap<i64, usize> = BTreeMap::new();
        for v in value_of(d) {
            if let Some((lo, hi)) = hard {
                if v < lo || v > hi {
                    continue;
                }
            }
            *per.entry(pos_of(v) as i64).or_default() += 1;
        }
        for (p, times) in per {
            push_doc(map.entry(p).or_default(), d, times, env, has_subs);
        }
    }
    let key_of = |p: i64| p as f64 * interval + offset;
    if min_doc_count > 0 {
        return map.into_iter().filter(|(_, v)| v.len() as u64 >= min_doc_count).map(|(p, v)| (key_of(p), v)).collect();
    }
    // range of buckets: data range, extended by extended_bounds
    let mut lo: Option<i64> = map.keys().next().cloned();
    let mut hi: Option<i64> = map.keys().next_back().cloned();
    if let Some((emin, emax)) = ext {
        let (pl, ph) = (pos_of(emin) as i64, pos_of(emax) as i64);
        lo = Some(lo.map_or(pl, |l| l.min(pl)));
        hi = Some(hi.map_or(ph, |h| h.max(ph)));
    }
    let (Some(lo), Some(hi)) = (lo, hi) else { return vec![] };
    (lo..=hi).map(|p| (key_of(p), map.remove(&p).unwrap_or_default())).collect()
}

// ------------------------------------------------------------------------------------------------
// composite (reference only for sources over single-valued fields; see c14.rs)

#[derive(Clone, Debug, PartialEq)]
pub enum CKey {
    Null,
    Num(f64),
    Str(String),
    /// date histogram key in ms
    DateMs(i64),
}
impl CKey {
    pub fn json(&self) -> Value {
        match self {
            CKey::Null => Value::Null,
            CKey::Num(x) => num_json(*x),
            CKey::Str(s) => json!(s),
            CKey::DateMs(ms) => json!(ms),
        }
    }
    /// the `after` form: "<type>:<value>" (rustdoc of AfterKey); the type is that of the intermediate key: f64 for
    /// histogram sources, nanoseconds for date histograms, the column type for terms sources (f64 columns: integral
    /// values are normalised to u64 / i64 keys)
    pub fn after_json(&self, src: &Src) -> Value {
        match self {
            CKey::Null => json!("null:"),
            CKey::Str(s) => json!(format!("str:{s}")),
            CKey::DateMs(ms) => json!(format!("dt:{}", ms * 1_000_000)),
            CKey::Num(x) => match src {
                Src::Histogram { .. } => json!(format!("f64:{x}")),
                Src::Terms { field: Fld::N, .. } => json!(format!("i64:{}", *x as i64)),
                Src::Terms { field: Fld::U | Fld::Uid, .. } => json!(format!("u64:{}", *x as u64)),
                _ => {
                    if x.fract() == 0.0 {
                        json!(format!("i64:{}", *x as i64))
                    } else {
                        json!(format!("f64:{x}"))
                    }
                }
            },
        }
    }
}
pub fn src_field(s: &Src) -> Fld {
    match s {
        Src::Terms { field, .. } => *field,
        Src::Histogram { field, .. } => *field,
        Src::DateHistogram { .. } => Fld::D,
    }
}
fn src_params(s: &Src) -> (bool, bool, u8) {
    match s {
        Src::Terms { desc, missing_bucket, missing_order, .. } => (*desc, *missing_bucket, *missing_order % 3),
        Src::Histogram { desc, missing_bucket, missing_order, .. } => (*desc, *missing_bucket, *missing_order % 3),
        Src::DateHistogram { desc, missing_bucket, missing_order, .. } => (*desc, *missing_bucket, *missing_order % 3),
    }
}
/// rustdoc: MissingOrder::Default "Missing keys appear first in ascending order, last in descending order",
/// First / Last absolute
pub fn ckey_cmp(a: &CKey, b: &CKey, desc: bool, missing_order: u8) -> std::cmp::Ordering {
    use std::cmp::Ordering::*;
    match (a, b) {
        (CKey::Null, CKey::Null) => Equal,
        (CKey::Null, _) => match missing_order {
            1 => Less,
            2 => Greater,
            _ => {
                if desc {
                    Greater
                } else {
                    Less
                }
            }
        },
        (_, CKey::Null) => ckey_cmp(b, a, desc, missing_order).reverse(),
        _ => {
            let o = match (a, b) {
                (CKey::Num(x), CKey::Num(y)) => x.partial_cmp(y).unwrap_or(Equal),
                (CKey::Str(x), CKey::Str(y)) => x.as_bytes().cmp(y.as_bytes()),
                (CKey::DateMs(x), CKey::DateMs(y)) => x.cmp(y),
                _ => Equal,
            };
            if desc {
                o.reverse()
            } else {
                o
            }
        }
    }
}

#[allow(clippy::too_many_arguments)]
fn eval_composite(
    n: &AggNode,
    depth: usize,
    sources: &[Src],
    size: usize,
    after_key: Option<Vec<CKey>>,
    docs: &[&DocM],
    env: &Env,
    path: &mut Vec<usize>,
    after: &dyn Fn(&[usize]) -> Option<Vec<CKey>>,
) -> Value {
    // rustdoc: sources terms / histogram / date_histogram; "missing_bucket: Whether to create a null bucket for
    // documents without value for this field. By default documents without a value are ignored"; "size: Number of
    // buckets to return (page size)"; "after: The key of the previous page's last bucket"; "the buckets are
    // ordered by the composite key"
    let mut groups: Vec<(Vec<CKey>, Vec<&DocM>)> = vec![];
    'doc: for d in docs {
        let mut key = vec![];
        for s in sources {
            let (_, missing_bucket, _) = src_params(s);
            let vs = vals(d, src_field(s));
            let k = match vs.first() {
                None => {
                    if missing_bucket {
                        CKey::Null
                    } else {
                        continue 'doc;
                    }
                }
                Some(v) => match s {
                    Src::Terms { .. } => match v_to_tkey(v) {
                        TKey::Num(x) => CKey::Num(x),
                        TKey::Str(s) => CKey::Str(s),
                    },
                    Src::Histogram { interval_q, .. } => {
                        let i = q_interval(*interval_q);
                        CKey::Num((v.as_f64().unwrap() / i).floor() * i)
                    }
                    Src::DateHistogram { interval_ms, .. } => {
                        let i = (*interval_ms).max(1) as i64;
                        let ms = match v {
                            V::DateMs(ms) => *ms,
                            _ => 0,
                        };
                        CKey::DateMs(ms.div_euclid(i) * i)
                    }
                },
            };
            key.push(k);
        }
        match groups.iter_mut().find(|g| g.0 == key) {
            Some(g) => g.1.push(d),
            None => groups.push((key, vec![d])),
        }
    }
    let cmp_keys = |a: &Vec<CKey>, b: &Vec<CKey>| {
        for (i, s) in sources.iter().enumerate() {
            let (desc, _, mo) = src_params(s);
            let o = ckey_cmp(&a[i], &b[i], desc, mo);
            if o != std::cmp::Ordering::Equal {
                return o;
            }
        }
        std::cmp::Ordering::Equal
    };
    groups.sort_by(|a, b| cmp_keys(&a.0, &b.0));
    if let Some(ak) = &after_key {
        groups.retain(|g| cmp_keys(&g.0, ak) == std::cmp::Ordering::Greater);
    }
    groups.truncate(size);
    let last = groups.last().map(|g| g.0.clone());
    let buckets: Vec<Value> = groups
        .into_iter()
        .map(|(key, sel)| {
            let mut km = Map::new();
            for (i, k) in key.iter().enumerate() {
                km.insert(format!("s{i}"), k.json());
            }
            let mut o = Map::new();
            o.insert("key".into(), Value::Object(km));
            o.insert("doc_count".into(), json!(sel.len()));
            with_subs(o, n, depth, &sel, env, path, after)
        })
        .collect();
    let mut o = Map::new();
    o.insert("buckets".into(), json!(buckets));
    if let Some(last) = last {
        let mut am = Map::new();
        for (i, k) in last.iter().enumerate() {
            am.insert(format!("s{i}"), k.after_json(&sources[i]));
        }
        o.insert("after_key".into(), Value::Object(am));
        o.insert("__last".into(), json!(last.iter().map(|k| k.json()).collect::<Vec<_>>()));
    }
    Value::Object(o)
}
