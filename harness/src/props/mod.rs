use crate::engine::PropDef;

pub mod c01;
pub mod c02;
pub mod c02_producers;
pub mod c10;
pub mod c20;

pub fn all() -> Vec<PropDef> {
    vec![c01::def(), c02::def(), c10::def(), c20::def()]
}

/// entry point of `tvv child …` (used by the checks that need process isolation)
pub fn child_main(_args: &[String]) -> i32 {
    2
}
