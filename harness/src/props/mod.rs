use crate::engine::PropDef;

pub mod c01;
pub mod c02;
pub mod c02_producers;
pub mod c03;
pub mod c04;
pub mod c05;
pub mod c10;
pub mod c11;
pub mod c20;

pub fn all() -> Vec<PropDef> {
    vec![c01::def(), c02::def(), c03::def(), c04::def(), c05::def(), c10::def(), c11::def(), c20::def()]
}

/// entry point of `tvv child …` (used by the checks that need process isolation)
pub fn child_main(args: &[String]) -> i32 {
    match args.first().map(|s| s.as_str()) {
        Some("c11") => c11::child_main(&args[1..]),
        _ => 2,
    }
}
