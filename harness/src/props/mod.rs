use crate::engine::PropDef;

pub mod c01;
pub mod c01_mmap;
pub mod c02;
pub mod c02_producers;
pub mod c02_shared;
pub mod c03;
pub mod c03_typed;
pub mod c04;
pub mod c05;
pub mod c06;
pub mod c07;
pub mod c08;
pub mod c08_columnar;
pub mod c08_tantivy;
pub mod c09;
pub mod c09_model;
pub mod c10;
pub mod c11;
pub mod c12;
pub mod c13;
pub mod c13_corpus;
pub mod c14;
pub mod c14_cmp;
pub mod c14_model;
pub mod c15;
pub mod c15_merge;
pub mod c15_termdict;
pub mod c16;
pub mod c16_sem;
pub mod c17;
pub mod c18;
pub mod c18_proc;
pub mod c19;
pub mod c19_gen;
pub mod c20;

pub fn all() -> Vec<PropDef> {
    vec![c01::def(), c02::def(), c03::def(), c04::def(), c05::def(), c06::def(), c07::def(), c08::def(), c09::def(), c10::def(), c11::def(), c12::def(), c13::def(), c14::def(), c15::def(), c16::def(), c17::def(), c18::def(), c19::def(), c20::def()]
}

/// entry point of `tvv child …` (used by the checks that need process isolation)
pub fn child_main(args: &[String]) -> i32 {
    match args.first().map(|s| s.as_str()) {
        Some("c01-mmap") => c01_mmap::child_main(&args[1..]),
        Some("c11") => c11::child_main(&args[1..]),
        Some("c18") => c18::child_main(args),
        Some(a) if a.starts_with("c16-") => c16::child_main(args),
        _ => 2,
    }
}
