//! C11 — an I/O error never corrupts the index nor is silently swallowed.
//!
//! Parent: generates (history, configuration, fault specs); runs `tvv child c11 <case file>` and judges the
//! child's protocol lines and exit status.  Child: for every fault spec of the case re-runs the history on a
//! fresh SimDir with the fault armed and checks the oracle (a)–(d) of DESIGN §3 C11; process isolation is
//! needed because a panic inside rayon's pool aborts the process.
use std::cell::{Cell, RefCell};
use std::io::{BufRead, BufReader, Read, Write};
use std::path::PathBuf;
use std::process::{Command, Stdio};
use std::time::{Duration, Instant};

use proptest::prelude::*;
use serde::{Deserialize, Serialize};
use serde_json::{json, Value};
use tantivy::Index;

use crate::crash::check_image;
use crate::engine::*;
use crate::hist::*;
use crate::known::Known;
use crate::simdir::{DataOutcome, FaultRule, Replay, SimDir, K};

pub fn def() -> PropDef {
    PropDef {
        id: "C11",
        level: "fault_enumeration",
        rule: "Generated histories (C02 operation alphabet incl. merges, rollback, gc; 1-4 threads, flush-every-N, merge policies) on SimDir; a fault-free dry run counts the storage operations per kind filter, then for generated fault positions k (fraction of that count; thorough: denser) x mode {once, permanent from k} x kind filter {any, create, append, flush, terminate, atomic_write, sync_directory, delete, open/atomic read, lock files} x thread filter the history is re-run in a child process with the fault injected. Oracle: every API call returns Ok or Err (no panic/abort/hang); after every commit that returned Ok the durable crash image (minimal persistence outcome) opens, passes checksums and equals the model of that commit; after the run, with faults off, a fresh Index::open equals the last successful commit (or the commit whose call failed after publishing its metadata), the failed writer can be dropped or rolled back - optionally after it was used further (add + commit, a merge of all segments, or an explicit garbage collection with the failed writer) - a new writer is created and add+commit works. Non-trivial = the fault fired after the first API call; distinct by hash(history, fault spec).",
        assumptions: vec![
            "faults are injected at Directory-trait operations (the storage API tantivy uses), returned as io::Error",
            "a stalled child (no output and no CPU progress for 20 s) is a hang = violation; a merely slow child is inconclusive",
        ],
        subs: vec![Box::new(Faults)],
    }
}

#[derive(Clone, Debug, Serialize, Deserialize)]
pub struct FaultSpec {
    /// kinds filter: 0 any, 1 create, 2 append, 3 flush, 4 terminate, 5 atomic_write, 6 sync_directory, 7 delete,
    /// 8 open_read/atomic_read, 9 lock files (create of *.lock), 10 a read of an opened file
    pub kind: u8,
    /// position as a fraction (1/65536) of the number of matching operations in the fault-free dry run
    pub pos: u16,
    pub permanent: bool,
    /// 0 any thread, 1 indexing workers, 2 segment updater, 3 merge threads, 4 doc-store compressor
    pub thread: u8,
    /// recover with rollback() (true) or by dropping the writer (false)
    pub rollback: bool,
    /// before recovering, keep using the failed writer: add one more document and commit; if both return Ok
    /// the document must be searchable ("a commit that returns Ok is complete")
    #[serde(default)]
    pub reuse: bool,
    /// after a failed commit, merge all searchable segments with the same writer before recovering (a later
    /// metadata write must not publish the failed transaction)
    #[serde(default)]
    pub merge_after_failure: bool,
    /// after a failed commit, run garbage_collect_files() with the same writer before anything else (the files of the
    /// commit that is on storage must survive whatever the failed writer believes to be current)
    #[serde(default)]
    pub gc_after_failure: bool,
}
#[derive(Clone, Debug, Serialize, Deserialize)]
pub struct FaultCase {
    pub cfg: HistCfg,
    pub ops: Vec<Op>,
    pub faults: Vec<FaultSpec>,
}

fn rule_of(f: &FaultSpec, nth: usize) -> FaultRule {
    let (kinds, path_suffix, locks): (Vec<K>, &str, bool) = match f.kind {
        1 => (vec![K::Create], "", false),
        2 => (vec![K::Append], "", false),
        3 => (vec![K::Flush], "", false),
        4 => (vec![K::Terminate], "", false),
        5 => (vec![K::AtomicWrite], "", false),
        6 => (vec![K::SyncDir], "", false),
        7 => (vec![K::Delete], "", false),
        8 => (vec![K::OpenRead, K::AtomicRead], "", false),
        9 => (vec![K::Create], ".lock", true),
        // one read of an opened file (merges, advance_deletes, reader loads); reads are not logged, the position is taken
        // as given (it may lie beyond the number of reads of the history)
        10 => (vec![K::Read], "", false),
        _ => (vec![], "", false),
    };
    let thread = match f.thread {
        1 => "thrd-tantivy-index",
        2 => "segment_updater",
        3 => "merge_thread",
        4 => "docstore-compressor",
        _ => "",
    };
    FaultRule { kinds, thread: thread.to_string(), path_suffix: path_suffix.to_string(), nth, permanent: f.permanent, locks }
}

pub struct Faults;
impl Sub for Faults {
    type Case = FaultCase;
    fn name(&self) -> &'static str {
        "faults"
    }
    fn cases(&self, tier: Tier) -> u32 {
        tier.pick(320, 6000)
    }
    fn max_shrink_iters(&self) -> u32 {
        150
    }
    fn strategy(&self, tier: Tier) -> BoxedStrategy<FaultCase> {
        static DIRS: [DirKind; 1] = [DirKind::Sim];
        let cfg = cfg_strategy(&DIRS).prop_map(|mut c| {
            c.threads = c.threads.min(4);
            c
        });
        let fault = (
            prop_oneof![6 => Just(0u8), 2 => Just(1u8), 3 => Just(2u8), 1 => Just(3u8), 3 => Just(4u8), 3 => Just(5u8), 2 => Just(6u8), 2 => Just(7u8), 2 => Just(8u8), 1 => Just(9u8), 2 => Just(10u8)],
            any::<u16>(),
            any::<bool>(),
            prop_oneof![8 => Just(0u8), 1 => Just(1u8), 1 => Just(2u8), 1 => Just(3u8), 1 => Just(4u8)],
            any::<bool>(),
            prop::bool::weighted(0.35),
            prop::bool::weighted(0.25),
            prop::bool::weighted(0.3),
        )
            .prop_map(|(kind, pos, permanent, thread, rollback, reuse, merge_after_failure, gc_after_failure)| FaultSpec { kind, pos, permanent, thread, rollback, reuse: reuse && !merge_after_failure, merge_after_failure, gc_after_failure });
        let nfaults = tier.pick(24usize, 40);
        (cfg, prop::collection::vec(op_strategy(false), 4..30), prop::collection::vec(fault, nfaults..nfaults + 1))
            .prop_map(|(cfg, ops, faults)| FaultCase { cfg, ops, faults })
            .boxed()
    }
    fn mandatory_labels(&self, _t: Tier) -> Vec<&'static str> {
        vec!["fired@indexer", "fired@updater", "fired@merge", "fired@compressor", "api_error_surfaced", "commit_ok_after_fault", "recover:rollback", "recover:drop", "no_leftover_checked_after_recovery", "delete_fault_fired_then_no_leftover_checked", "failed_transaction_issued_again"]
    }
    fn run(&self, c: &FaultCase, cx: &Ctx) -> CaseResult {
        // write the case where the child can read it
        let dir = tmp_root();
        let path = dir.join(format!("c11-{}-{:016x}.json", std::process::id(), mix(fp(c), thread_salt())));
        std::fs::write(&path, serde_json::to_vec(c).unwrap()).or_fail("INFRA:write_case")?;
        let r = run_child(&path, c, cx);
        let _ = std::fs::remove_file(&path);
        r
    }
}

fn thread_salt() -> u64 {
    fnv(std::thread::current().name().unwrap_or("x").as_bytes())
}

fn cpu_ticks(pid: u32) -> Option<u64> {
    let s = std::fs::read_to_string(format!("/proc/{pid}/stat")).ok()?;
    let rest = s.rsplit_once(')')?.1;
    let f: Vec<&str> = rest.split_whitespace().collect();
    // after the ')' : state(0) ppid(1) ... utime is field 14 overall => index 11 here, stime 12
    Some(f.get(11)?.parse::<u64>().ok()? + f.get(12)?.parse::<u64>().ok()?)
}

fn run_child(path: &PathBuf, c: &FaultCase, cx: &Ctx) -> CaseResult {
    let exe = std::env::current_exe().or_fail("INFRA:current_exe")?;
    let mut child = Command::new(exe)
        .arg("child")
        .arg("c11")
        .arg(path)
        .stdin(Stdio::null())
        .stdout(Stdio::piped())
        .stderr(Stdio::piped())
        .spawn()
        .or_fail("INFRA:spawn_child")?;
    let pid = child.id();
    let stdout = child.stdout.take().unwrap();
    let mut stderr = child.stderr.take().unwrap();
    let (tx, rx) = std::sync::mpsc::channel::<String>();
    let reader = std::thread::spawn(move || {
        for line in BufReader::new(stdout).lines().map_while(Result::ok) {
            if tx.send(line).is_err() {
                break;
            }
        }
    });
    let err_reader = std::thread::spawn(move || {
        let mut s = String::new();
        let _ = stderr.read_to_string(&mut s);
        s
    });
    let mut current: Option<usize> = None;
    let mut done = 0usize;
    let started = Instant::now();
    let mut last_progress = Instant::now();
    let mut last_ticks = cpu_ticks(pid).unwrap_or(0);
    let mut last_tick_change = Instant::now();
    let case_fp = fp(&(&c.cfg, &c.ops));
    let mut result: CaseResult = Ok(());
    let mut finished = false;
    loop {
        match rx.recv_timeout(Duration::from_millis(500)) {
            Ok(line) => {
                last_progress = Instant::now();
                if let Some(rest) = line.strip_prefix("START ") {
                    current = rest.trim().parse().ok();
                } else if let Some(rest) = line.strip_prefix("DONE ") {
                    let (i, js) = rest.split_once(' ').unwrap_or((rest, "{}"));
                    let i: usize = i.parse().unwrap_or(0);
                    let v: Value = serde_json::from_str(js).unwrap_or(Value::Null);
                    done += 1;
                    current = None;
                    cx.evals(1);
                    account(cx, &v, &c.faults[i], mix(case_fp, fp(&c.faults[i])));
                    if let Some(f) = v.get("failure").filter(|f| !f.is_null()) {
                        let sig = f.get("sig").and_then(|s| s.as_str()).unwrap_or("child_failure").to_string();
                        if cx.known_open(&sig) {
                            // schedule-dependent known finding: count it and go on with the next fault of the case
                            cx.count(&format!("known_finding_hit:{sig}"), 1);
                            continue;
                        }
                        let detail = f.get("detail").and_then(|s| s.as_str()).unwrap_or("").to_string();
                        result = Err(Failure::new(sig, format!("fault #{i} {:?}: {detail}", c.faults[i])));
                        break;
                    }
                } else if line.starts_with("END") {
                    finished = true;
                    break;
                }
            }
            Err(std::sync::mpsc::RecvTimeoutError::Timeout) => {
                if let Some(t) = cpu_ticks(pid) {
                    if t != last_ticks {
                        last_ticks = t;
                        last_tick_change = Instant::now();
                    }
                }
                let silent = last_progress.elapsed();
                if silent > Duration::from_secs(20) && last_tick_change.elapsed() > Duration::from_secs(15) {
                    let _ = child.kill();
                    result = Err(Failure::new(
                        "hang",
                        format!("child made no progress for {:?} (no output, no CPU time) in fault #{current:?} {:?}", silent, current.map(|i| &c.faults[i])),
                    ));
                    break;
                }
                if started.elapsed() > Duration::from_secs(300) {
                    let _ = child.kill();
                    result = Err(Failure::new("INFRA:child_timeout", format!("child still running after 300 s (fault #{current:?})")));
                    break;
                }
            }
            Err(std::sync::mpsc::RecvTimeoutError::Disconnected) => break,
        }
    }
    let status = child.wait().or_fail("INFRA:wait_child")?;
    let _ = reader.join();
    let stderr_text = err_reader.join().unwrap_or_default();
    if result.is_ok() && !finished {
        // the child died without finishing: abort / signal / non-zero exit
        let lines: Vec<&str> = stderr_text.lines().collect();
        let mut picked: Vec<&str> = vec![];
        for (i, l) in lines.iter().enumerate() {
            if l.contains("panicked at") || l.contains("fatal runtime error") || l.contains("SIGSEGV") || l.contains("stack overflow") {
                picked.push(l);
                if let Some(n) = lines.get(i + 1) {
                    picked.push(n);
                }
            }
        }
        if picked.is_empty() {
            picked = lines.iter().rev().take(6).rev().cloned().collect();
        }
        let tail: String = picked.join(" | ");
        let what = current.map(|i| format!("{:?}", c.faults[i])).unwrap_or_else(|| "outside a fault run".into());
        if current.is_none() && done == 0 {
            return Err(Failure::new("INFRA:child_died_early", format!("status {status:?}: {tail}")));
        }
        return Err(Failure::new("process_died", format!("child exited with {status:?} during fault #{current:?} {what}; stderr: {tail}")));
    }
    if result.is_ok() {
        cx.sample(|| json!({"sub": "faults", "cfg": c.cfg, "ops": c.ops.len(), "faults": c.faults.iter().take(3).collect::<Vec<_>>() }));
    }
    result
}

fn account(cx: &Ctx, v: &Value, f: &FaultSpec, fingerprint: u64) {
    let fired = v.get("fired").and_then(|x| x.as_u64()).unwrap_or(0);
    cx.label(&format!("kind:{}", f.kind));
    cx.label(if f.permanent { "mode:permanent" } else { "mode:once" });
    if fired == 0 {
        cx.label("fault_not_reached");
        return;
    }
    if let Some(m) = v.get("fired_by").and_then(|m| m.as_object()) {
        for (k, n) in m {
            let class = k.split('@').nth(1).unwrap_or("?");
            cx.label(&format!("fired@{class}"));
            cx.count(&format!("fired:{k}"), n.as_u64().unwrap_or(0));
        }
    }
    if v.get("api_error").map(|e| !e.is_null()).unwrap_or(false) {
        cx.label("api_error_surfaced");
        if let Some(api) = v["api_error"].get("api").and_then(|a| a.as_str()) {
            cx.label(&format!("error_from:{api}"));
        }
    }
    if v.get("commit_ok_after_fault").and_then(|b| b.as_bool()).unwrap_or(false) {
        cx.label("commit_ok_after_fault");
    }
    if v.get("merged_after_failure").and_then(|b| b.as_bool()).unwrap_or(false) {
        cx.label("merge_after_failed_commit");
    }
    if v.get("gc_after_failure").and_then(|b| b.as_bool()).unwrap_or(false) {
        cx.label("gc_after_failed_call");
    }
    if v.get("retried").and_then(|b| b.as_bool()).unwrap_or(false) {
        cx.label("failed_transaction_issued_again");
    }
    if v.get("leak_checked").and_then(|b| b.as_bool()).unwrap_or(false) {
        cx.label("no_leftover_checked_after_recovery");
        let delete_fired = v.get("fired_by").and_then(|m| m.as_object()).map(|m| m.keys().any(|k| k.starts_with("Delete"))).unwrap_or(false);
        cx.label_if(delete_fired, "delete_fault_fired_then_no_leftover_checked");
    }
    if let Some(r) = v.get("recovered_by").and_then(|r| r.as_str()) {
        cx.label(&format!("recover:{r}"));
    }
    if v.get("fired_after_first_call").and_then(|b| b.as_bool()).unwrap_or(false) {
        cx.nontrivial(fingerprint);
    }
}

// ------------------------------------------------------------------------------------------------
// child side

pub fn child_main(args: &[String]) -> i32 {
    let Some(path) = args.first() else { return 2 };
    let bytes = match std::fs::read(path) {
        Ok(b) => b,
        Err(_) => return 2,
    };
    let case: FaultCase = match serde_json::from_slice(&bytes) {
        Ok(c) => c,
        Err(_) => return 2,
    };
    let root = PathBuf::from(std::env::var("VERIF_ROOT").unwrap_or_else(|_| "/verif".into()));
    let known = Known::load(&root.join("KNOWN_FINDINGS.txt"), "C11");
    let stats = RefCell::new(Stats::default());
    let counting = Cell::new(false);
    let cx = Ctx::new(Tier::Quick, &known, true, &stats, &counting);
    let out = std::io::stdout();
    // dry run: count operations per fault filter
    let dry = match run_history(&case, None, &cx) {
        Ok(r) => r,
        Err(f) => {
            // the fault-free run itself failed: report as failure of fault 0
            let mut o = out.lock();
            let _ = writeln!(o, "START 0");
            let _ = writeln!(o, "DONE 0 {}", json!({"fired": 0, "failure": {"sig": format!("faultfree:{}", f.sig), "detail": f.detail}}));
            let _ = writeln!(o, "END");
            return 0;
        }
    };
    for (i, f) in case.faults.iter().enumerate() {
        {
            let mut o = out.lock();
            let _ = writeln!(o, "START {i}");
            let _ = o.flush();
        }
        // number of matching operations in the dry run
        let rule0 = rule_of(f, usize::MAX);
        let n = dry.log_kinds.iter().filter(|(k, t, p)| rule_matches(&rule0, *k, t, p)).count();
        let nth = if f.kind == 10 {
            let m = dry.reads.iter().filter(|(t, p)| rule_matches(&rule0, K::Read, t, p)).count();
            idx(f.pos, m.max(1))
        } else {
            idx(f.pos, n.max(1))
        };
        let res = run_history(&case, Some((rule_of(f, nth), f.rollback, f.reuse, f.merge_after_failure, f.gc_after_failure)), &cx);
        let v = match res {
            Ok(r) => json!({
                "fired": r.fired, "fired_by": r.fired_by, "api_error": r.api_error, "commit_ok_after_fault": r.commit_ok_after_fault,
                "recovered_by": r.recovered_by, "fired_after_first_call": r.fired_after_first_call, "merged_after_failure": r.merged_after_failure, "gc_after_failure": r.gc_after_failure, "leak_checked": r.leak_checked, "retried": r.retried, "failure": Value::Null,
            }),
            Err(fl) => json!({"fired": 1, "failure": {"sig": fl.sig, "detail": fl.detail}}),
        };
        let mut o = out.lock();
        let _ = writeln!(o, "DONE {i} {v}");
        let _ = o.flush();
    }
    let mut o = out.lock();
    let _ = writeln!(o, "END");
    let _ = o.flush();
    0
}

fn rule_matches(rule: &FaultRule, kind: K, thread: &str, path: &str) -> bool {
    let lock = path.ends_with(".lock");
    if lock && !rule.locks {
        return false;
    }
    let kind_ok = if rule.kinds.is_empty() { kind != K::Exists } else { rule.kinds.contains(&kind) };
    kind_ok && thread.starts_with(rule.thread.as_str()) && path.ends_with(rule.path_suffix.as_str())
}

#[derive(Default)]
struct RunReport {
    fired: usize,
    fired_by: std::collections::BTreeMap<String, usize>,
    api_error: Value,
    commit_ok_after_fault: bool,
    recovered_by: Option<String>,
    reused_commit_ok: bool,
    merged_after_failure: bool,
    gc_after_failure: bool,
    leak_checked: bool,
    retried: bool,
    fired_after_first_call: bool,
    log_kinds: Vec<(K, String, String)>,
    /// (thread, path) of every read of an opened file, in order (dry run only)
    reads: Vec<(String, String)>,
}

/// Runs the history on a fresh SimDir, optionally with a fault armed, and applies the oracle.
fn run_history(case: &FaultCase, fault: Option<(FaultRule, bool, bool, bool, bool)>, cx: &Ctx) -> Result<RunReport, Failure> {
    let sd = SimDir::new();
    let mut env = Env::with_sim(case.cfg.clone(), Some(sd.clone()))?;
    env.check_quiescence = false;
    env.verify_each_commit = false;
    env.skip_dirty_delete_all = true;
    let mut rep = RunReport::default();
    let armed_at = sd.op_count();
    let armed_log_len = sd.log_len();
    if let Some((rule, _, _, _, _)) = &fault {
        sd.set_faults(vec![rule.clone()]);
    } else {
        // dry run: count the reads too (a rule that names K::Read and never fires arms the read accounting)
        sd.set_faults(vec![FaultRule { kinds: vec![K::Read], thread: String::new(), path_suffix: String::new(), nth: usize::MAX, permanent: false, locks: false }]);
    }
    let mut failed_api: Option<(usize, String, String)> = None;
    let mut ops_done = 0usize;
    // index of the first operation of the transaction in progress (the one after the last commit that returned Ok)
    let mut txn_start = 0usize;
    for (i, op) in case.ops.iter().chain(std::iter::once(&Op::Commit)).enumerate() {
        let fired_before = sd.faults_fired();
        let commits_before = env.commits;
        let r = env.apply(op, cx);
        ops_done += 1;
        match r {
            Ok(()) => {
                if env.commits > commits_before {
                    txn_start = i + 1;
                    // (b) a commit that returned Ok is complete, readable and durable
                    if fault.is_some() {
                        let log = sd.clone_log();
                        let mut rp = Replay::new();
                        for o in &log {
                            rp.feed(o);
                        }
                        let files = crate::simdir::image(&rp, &|_, _| false, DataOutcome::Lost);
                        let j = env.commits;
                        // reading the image must not be disturbed by a permanent fault: the image is a separate directory
                        check_image(files, &[j], &env.models, false, false).map_err(|f| {
                            // storage history of the file named in the failure (diagnostics)
                            let mut hist = String::new();
                            if let Some(name) = f.detail.split_whitespace().find(|w| w.len() > 33 && w.contains('.')) {
                                let seg = &name[..32.min(name.len())];
                                let mut syncs = 0usize;
                                for (n, o) in log.iter().enumerate() {
                                    if o.kind == K::SyncDir {
                                        syncs += 1;
                                    }
                                    let p = o.path.to_string_lossy();
                                    if p.contains(seg) && matches!(o.kind, K::Create | K::Delete | K::Terminate) {
                                        hist.push_str(&format!(" [{n}:{:?} {} by {} failed={} syncs_before={syncs}]", o.kind, p, o.thread, o.failed));
                                    }
                                }
                                hist.push_str(&format!(" (log has {} ops, {syncs} syncs)", log.len()));
                            }
                            Failure::new(format!("commit_ok_but_durable_image_bad:{}", f.sig), format!("after op #{i} {op:?} (commit c{j} returned Ok, {} faults fired so far): {}; history:{hist}", sd.faults_fired(), f.detail))
                        })?;
                        if sd.faults_fired() > 0 {
                            rep.commit_ok_after_fault = true;
                        }
                    }
                }
            }
            Err(f) => {
                let api = api_of(op);
                // an error is only legitimate if a fault fired (now or earlier: writer killed)
                // legitimate API errors carry a `*_failed` signature; everything else is a broken law
                if sd.faults_fired() == 0 || !f.sig.ends_with("_failed") {
                    return Err(Failure::new(format!("unexpected:{}", f.sig), format!("op #{i} {op:?}: {}", f.detail)));
                }
                let _ = fired_before;
                failed_api = Some((i, api.to_string(), f.detail.chars().take(300).collect()));
                break;
            }
        }
    }
    rep.fired = sd.faults_fired();
    {
        let st = sd.st.lock().unwrap();
        rep.fired_by = st.fired_by_kind_thread.clone();
        if let Some(first) = st.faults_fired.first() {
            rep.fired_after_first_call = first.0 > armed_at + 3 && ops_done > 1;
        }
    }
    if fault.is_none() {
        // dry run: hand back the op kinds for position selection
        let log = sd.clone_log();
        // only operations issued after the point where a fault would be armed count for the positions
        rep.reads = sd.take_reads();
        rep.log_kinds = log.iter().skip(armed_log_len).map(|o| (o.kind, o.thread.clone(), o.path.to_string_lossy().to_string())).collect();
        return Ok(rep);
    }
    rep.api_error = match &failed_api {
        Some((i, api, msg)) => json!({"op": i, "api": api, "msg": msg}),
        None => Value::Null,
    };
    // recovery, faults off
    sd.clear_faults();
    if std::env::var("TVV_C11_DUMP").is_ok() {
        let log = sd.clone_log();
        let start = log.iter().rposition(|o| o.path.to_string_lossy() == "meta.json" && o.kind == K::AtomicWrite).unwrap_or(0).saturating_sub(3);
        for (n, o) in log.iter().enumerate().skip(start) {
            eprintln!("  {n:5} {:24} {:?} {} failed={}", o.thread, o.kind, o.path.display(), o.failed);
        }
        eprintln!("  api error: {failed_api:?}");
    }
    // optional: garbage collection with the failed writer
    if fault.as_ref().map(|f| f.4).unwrap_or(false) && failed_api.is_some() {
        if let Some(w) = env.writer.as_ref() {
            let _ = w.garbage_collect_files().wait();
            rep.gc_after_failure = true;
        }
    }
    // optional: an explicit merge with the failed writer (its end_merge writes the metadata again)
    if fault.as_ref().map(|f| f.3).unwrap_or(false) && failed_api.as_ref().map(|x| x.1 == "commit").unwrap_or(false) {
        if let Some(w) = env.writer.as_mut() {
            if let Ok(ids) = env.index.searchable_segment_ids() {
                if !ids.is_empty() {
                    let _ = w.merge(&ids).wait();
                    rep.merged_after_failure = true;
                }
            }
        }
    }
    // optional: keep using the failed writer first
    let reuse = fault.as_ref().map(|f| f.2).unwrap_or(false);
    let (_s0, f0) = hist_schema();
    if reuse && failed_api.is_some() {
        if let Some(w) = env.writer.as_mut() {
            const REUSE_UID: u64 = 8_000_000;
            let mut d = tantivy::TantivyDocument::new();
            d.add_u64(f0.uid, REUSE_UID);
            d.add_text(f0.grp, "g1");
            d.add_text(f0.body, "w1");
            d.add_i64(f0.num, 1);
            if w.add_document(d).is_ok() {
                let mut pc_ok = false;
                if let Ok(mut pc) = w.prepare_commit() {
                    pc.set_payload("reused");
                    pc_ok = pc.commit().is_ok();
                }
                if pc_ok {
                    rep.reused_commit_ok = true;
                    let reader: tantivy::IndexReader = env.index.reader_builder().reload_policy(tantivy::ReloadPolicy::Manual).try_into().or_fail("after_fault:reader_open_failed")?;
                    let n = reader
                        .searcher()
                        .search(&tantivy::query::TermQuery::new(tantivy::Term::from_field_u64(f0.uid, REUSE_UID), tantivy::schema::IndexRecordOption::Basic), &tantivy::collector::Count)
                        .or_fail("after_fault:search_failed")?;
                    if n != 1 {
                        return Err(Failure::new(
                            "reused_writer_commit_ok_but_incomplete",
                            format!("after {failed_api:?} the same writer accepted add_document (Ok) and commit (Ok), but the document is found {n} times"),
                        ));
                    }
                    // the rest of the oracle cannot be applied any more (the content of a transaction continued after
                    // a failure is not defined): stop here after the structural checks
                    drop(env.writer.take());
                    let fresh = Index::open(sd.clone()).or_fail("after_fault:index_open_failed")?;
                    match fresh.validate_checksum() {
                        Ok(bad) if bad.is_empty() => {}
                        other => return Err(Failure::new("after_fault:checksum", format!("{other:?}"))),
                    }
                    rep.recovered_by = Some("reuse".into());
                    return Ok(rep);
                }
            }
        }
    }
    let j_ok = env.commits;
    let recover_with_rollback = fault.as_ref().map(|f| f.1).unwrap_or(false);
    if let Some(mut w) = env.writer.take() {
        if recover_with_rollback && failed_api.is_some() {
            // rollback of a failed writer may itself return Err; it must not panic or hang
            let _ = w.rollback();
            rep.recovered_by = Some("rollback".into());
            drop(w);
        } else {
            drop(w);
            if failed_api.is_some() {
                rep.recovered_by = Some("drop".into());
            }
        }
    }
    // (c) a fresh Index::open equals the last successful commit, or the commit whose call failed after publishing
    let fresh = Index::open(sd.clone()).or_fail("after_fault:index_open_failed")?;
    let found_j: u64 = {
        let meta = fresh.load_metas().or_fail("after_fault:load_metas_failed")?;
        meta.payload.as_deref().and_then(|p| p.strip_prefix('c')).and_then(|x| x.parse().ok()).unwrap_or(0)
    };
    let failed_commit = failed_api.as_ref().map(|(_, api, _)| api == "commit").unwrap_or(false);
    let mut models = env.models.clone();
    if failed_commit {
        // the commit in progress would have published `pending`
        models.push(env.pending.clone());
    }
    let acceptable: Vec<u64> = if failed_commit { vec![j_ok, j_ok + 1] } else { vec![j_ok] };
    if !acceptable.contains(&found_j) {
        return Err(Failure::new("after_fault:wrong_commit", format!("index exposes c{found_j}, acceptable {acceptable:?} (api error: {failed_api:?})")));
    }
    let (_schema, f) = hist_schema();
    {
        let reader: tantivy::IndexReader = fresh.reader_builder().reload_policy(tantivy::ReloadPolicy::Manual).try_into().map_err(|e: tantivy::TantivyError| {
            let msg = format!("{e:?}");
            let hist = msg.split('"').find(|w| w.len() > 33 && w.contains('.')).map(|name| file_history(&sd.clone_log(), &name[..32])).unwrap_or_default();
            Failure::new("after_fault:reader_open_failed", format!("(api error: {failed_api:?}, exposed commit c{found_j}, last ok c{j_ok}) {msg}; history:{hist}"))
        })?;
        verify_searcher(&reader.searcher(), &f, &models[found_j as usize], "after_fault").map_err(|fl| {
            // specific class: the metadata still names the previous commit, but the content is what the failed commit
            // would have published
            // (wholly, or - when a merge applied only the older deletes - partially)
            if failed_commit && found_j == j_ok && fl.sig.starts_with("content_") {
                Failure::new(
                    "after_fault:failed_commit_content_visible_under_previous_commit",
                    format!("(api error: {failed_api:?}) meta.json still carries payload c{j_ok} but the searchable content is the failed commit's: {}", fl.detail),
                )
            } else {
                Failure::new(format!("after_fault:{}", fl.sig), format!("(api error: {failed_api:?}) {}", fl.detail))
            }
        })?;
        match fresh.validate_checksum() {
            Ok(bad) if bad.is_empty() => {}
            other => return Err(Failure::new("after_fault:checksum", format!("{other:?}"))),
        }
    }
    // (c') "a new writer can continue indexing normally": the transaction that failed is issued again, operation by
    // operation, on a new writer of the recovered index - on healthy storage it has to go through, commit included
    let mut base_model = models[found_j as usize].clone();
    let mut reopened = false;
    if let Some((failed_idx, _, _)) = &failed_api {
        if found_j == j_ok {
            let opstamp = fresh.load_metas().or_fail("after_fault:load_metas_failed")?.opstamp;
            env.index = fresh.clone();
            env.committed = base_model.clone();
            env.commits = found_j;
            env.models.truncate(found_j as usize + 1);
            env.last_commit_opstamp = opstamp;
            env.after_writer_gone().map_err(|fl| Failure::new(format!("after_fault:retry:{}", fl.sig), fl.detail))?;
            let all_ops: Vec<&Op> = case.ops.iter().chain(std::iter::once(&Op::Commit)).collect();
            for (k, op) in all_ops.iter().enumerate().skip(txn_start).take(failed_idx + 1 - txn_start.min(*failed_idx + 1)) {
                env.apply(op, cx).map_err(|fl| {
                    Failure::new(
                        format!("after_fault:retry:{}", fl.sig),
                        format!("(api error: {failed_api:?}) after recovery ({:?}) the failed transaction (ops #{txn_start}..=#{failed_idx}) was issued again on a new writer, op #{k} {op:?} failed: {}", rep.recovered_by, fl.detail),
                    )
                })?;
            }
            env.apply(&Op::Commit, cx).map_err(|fl| {
                Failure::new(format!("after_fault:retry:{}", fl.sig), format!("(api error: {failed_api:?}) after recovery ({:?}) the failed transaction (ops #{txn_start}..=#{failed_idx}) was issued again on a new writer, the commit failed: {}", rep.recovered_by, fl.detail))
            })?;
            env.verify("after_fault:retry").map_err(|fl| Failure::new(format!("after_fault:retry:{}", fl.sig), fl.detail))?;
            base_model = env.committed.clone();
            if let Some(w) = env.writer.take() {
                w.wait_merging_threads().or_fail("after_fault:wait_merging_threads_failed")?;
            }
            rep.retried = true;
            reopened = true;
        }
    }
    // The retried operations may have gone through yet another Index handle (a ReopenIndex among them): what follows
    // uses one handle opened now, not the earlier one whose view of the managed files is older (each handle assumes it
    // is the only one that registers files - the known C10 limitation, not this check's subject)
    let fresh = if reopened { Index::open(sd.clone()).or_fail("after_fault:index_open_failed")? } else { fresh };
    // (d) a new writer can be created and continues normally
    let mut w = crate::util::writer(&fresh, crate::util::WriterCfg::default()).or_fail("after_fault:new_writer_failed")?;
    let mut d = tantivy::TantivyDocument::new();
    d.add_u64(f.uid, crate::crash::PROBE_UID);
    d.add_text(f.grp, "g0");
    d.add_text(f.body, "w0");
    d.add_i64(f.num, 0);
    w.add_document(d).or_fail("after_fault:add_failed")?;
    w.commit().or_fail("after_fault:commit_failed")?;
    let mut exp = base_model.clone();
    exp.insert(crate::crash::PROBE_UID, DocRec { grp: 0, words: vec![0], num: 0 });
    {
        let reader: tantivy::IndexReader = fresh.reader_builder().reload_policy(tantivy::ReloadPolicy::Manual).try_into().or_fail("after_fault:reader_open_failed")?;
        verify_searcher(&reader.searcher(), &f, &exp, "after_fault+commit").map_err(|fl| Failure::new(format!("after_fault:continue:{}", fl.sig), fl.detail))?;
    }
    w.wait_merging_threads().or_fail("after_fault:wait_merging_threads_failed")?;
    // (e) a swallowed error has no lasting side effect: the storage is healthy again, so after one more garbage
    // collection nothing is left of the failed work - in particular a file whose deletion failed once is still managed
    // and is collected now.  (Without a merge policy only: a policy merge that outlives the dropped writer registers
    // its files through the old Index handle, a known C10 finding.)
    if case.cfg.policy == Policy::NoMerge {
        let w2 = crate::util::writer(&fresh, crate::util::WriterCfg::default()).or_fail("after_fault:new_writer_failed")?;
        let mut last: Option<Failure> = None;
        for attempt in 0..4u64 {
            w2.garbage_collect_files().wait().or_fail("after_fault:gc_failed")?;
            let present: std::collections::BTreeSet<String> = sd.file_names().into_iter().filter(|p| !p.starts_with('.')).collect();
            let managed: std::collections::BTreeSet<String> = fresh.directory().list_managed_files().iter().map(|p| p.to_string_lossy().to_string()).filter(|p| !p.starts_with('.')).collect();
            let mut allowed: std::collections::BTreeSet<String> = std::collections::BTreeSet::new();
            {
                let metas = fresh.searchable_segment_metas().or_fail("after_fault:metas_failed")?;
                for m in &metas {
                    for f in m.list_files() {
                        allowed.insert(f.to_string_lossy().to_string());
                    }
                }
            }
            allowed.insert("meta.json".to_string());
            let orphans: Vec<&String> = present.difference(&allowed).collect();
            if orphans.is_empty() {
                last = None;
                break;
            }
            let unmanaged: Vec<&&String> = orphans.iter().filter(|o| !managed.contains(**o)).collect();
            let hist = orphans.first().map(|o| file_history(&sd.clone_log(), &o[..o.len().min(32)])).unwrap_or_default();
            last = Some(if !unmanaged.is_empty() {
                Failure::new("after_fault:file_left_unmanaged", format!("(api error: {failed_api:?}) after recovery, a commit and a garbage collection on healthy storage these files exist, belong to no segment and are not managed (never collected): {unmanaged:?}; history:{hist}"))
            } else {
                Failure::new("after_fault:orphan_after_gc", format!("(api error: {failed_api:?}) after recovery, a commit and a garbage collection on healthy storage these files belong to no segment: {orphans:?}; history:{hist}"))
            });
            std::thread::sleep(Duration::from_millis(20 * (attempt + 1)));
        }
        drop(w2);
        if let Some(f) = last {
            return Err(f);
        }
        rep.leak_checked = true;
    }
    Ok(rep)
}

/// storage history of the files of one segment (diagnostics for failures)
fn file_history(log: &[crate::simdir::Op], seg: &str) -> String {
    let mut hist = String::new();
    let mut syncs = 0usize;
    for (n, o) in log.iter().enumerate() {
        if o.kind == K::SyncDir {
            syncs += 1;
        }
        let p = o.path.to_string_lossy();
        if (p.contains(seg) && matches!(o.kind, K::Create | K::Delete)) || (p == "meta.json" && o.kind == K::AtomicWrite) {
            let extra = if p == "meta.json" { format!(" mentions_segment={}", o.data.as_ref().map(|d| String::from_utf8_lossy(d).contains(&seg[..8])).unwrap_or(false)) } else { String::new() };
            hist.push_str(&format!(" [{n}:{:?} {} by {} failed={}{extra}]", o.kind, p, o.thread, o.failed));
        }
    }
    hist.push_str(&format!(" ({} ops, {syncs} syncs)", log.len()));
    hist
}
fn api_of(op: &Op) -> &'static str {
    match op {
        Op::Add(_) | Op::BigRun(..) => "add",
        Op::DelUid(_) | Op::DelGroup(_) => "delete_term",
        Op::DelRange(..) | Op::DelBool(..) => "delete_query",
        Op::Batch(_) => "run",
        Op::DeleteAll => "delete_all",
        Op::Commit | Op::PrepareCommit | Op::CommitThenDelete(_) | Op::CommitDuringMergeEnd => "commit",
        Op::PrepareAbort => "abort",
        Op::Rollback => "rollback",
        Op::Merge(_) => "merge",
        Op::WaitMerges => "wait_merging_threads",
        Op::Reopen | Op::ReopenIndex => "reopen",
        Op::Gc => "gc",
    }
}
