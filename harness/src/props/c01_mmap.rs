//! C01, sub-check `mmap_syscalls` — the durability model that the crash-image enumeration (sub `crash`) assumes is
//! checked against the *real* `MmapDirectory` at the system-call level.
//!
//! A child process (`tvv child c01-mmap <case> <dir>`) runs a generated program on a `MmapDirectory`: first a
//! generated sequence of raw `Directory` operations (files written in generated chunk sizes with flushes, atomic
//! writes of generated sizes, directory syncs, deletes), then a small generated indexing history with commits and
//! merges.  The directory is wrapped in `MarkDir`, which delegates everything and brackets every `Directory`
//! operation by a *marker* system call on the calling thread (`statx("/tvv-mark/<tag>")`, which fails with ENOENT
//! and is visible to `strace`).  The parent runs the child under `strace -f -y` and judges the trace:
//!
//! * contract of one operation (window between its markers, same thread):
//!   - `atomic_write(P)`: exactly one successful rename onto P; its source was written completely (`len` bytes) and
//!     `fsync`/`fdatasync`ed after its last write and before the rename; P itself is never written in place;
//!   - `terminate(P)`: `fsync`/`fdatasync` of P after its last write; all bytes handed to the writer reached
//!     `write(2)` (sum of return values == bytes appended) and nothing is written to P afterwards;
//!   - `sync_directory()`: `fsync`/`fdatasync` on a descriptor of the directory itself;
//!   - `delete(P)`: an `unlink` of P;
//! * at every `commit()` that returned: for every file the new `meta.json` references, the file's data was synced
//!   after its last write, a directory sync followed its creation, both *before* the rename that published that
//!   `meta.json`, and a directory sync followed that rename before `commit()` returned.
//!
//! These are exactly the assumptions listed in C01's evidence (`bytes durable after terminate`, `directory entries
//! durable after the next sync_directory`, `atomic_write content is synced before its rename`).
use std::collections::{BTreeMap, HashMap};
use std::io::{self, Write};
use std::path::{Path, PathBuf};
use std::sync::Arc;

use proptest::prelude::*;
use serde::{Deserialize, Serialize};
use serde_json::json;
use tantivy::directory::error::{DeleteError, LockError, OpenReadError, OpenWriteError};
use tantivy::directory::{AntiCallToken, Directory, DirectoryLock, FileHandle, Lock, MmapDirectory, TerminatingWrite, WatchCallback, WatchHandle, WritePtr};
use tantivy::{Index, TantivyDocument, Term};

use crate::engine::*;
use crate::hist::{hist_schema, tmp_root};
use crate::util::{writer, WriterCfg};
use crate::{ensure, fail};

// ------------------------------------------------------------------------------------------------ case

#[derive(Clone, Debug, Serialize, Deserialize)]
pub enum DOp {
    /// open_write(f<name>), write the chunks (flush after chunk i if bit i of `flush` is set), terminate
    Write { name: u8, chunks: Vec<u32>, flush: u16 },
    Atomic { name: u8, len: u32 },
    SyncDir,
    Delete { name: u8 },
}
#[derive(Clone, Debug, Serialize, Deserialize)]
pub enum IOp {
    Add(u8),
    DelUid(u16),
    Commit,
    MergeAll,
    Gc,
}
#[derive(Clone, Debug, Serialize, Deserialize)]
pub struct MmapCase {
    pub direct: Vec<DOp>,
    pub index_ops: Vec<IOp>,
    pub threads: u8,
}

fn chunk_strategy() -> impl Strategy<Value = u32> {
    // around the BufWriter capacity (8 KiB default) and tantivy's 4 KiB / 64 KiB sizes
    prop_oneof![
        4 => 0u32..64,
        3 => 64u32..5000,
        2 => prop_oneof![Just(4095u32), Just(4096), Just(4097), Just(8191), Just(8192), Just(8193)],
        1 => 8193u32..70_000,
    ]
}
fn dop_strategy() -> impl Strategy<Value = DOp> {
    prop_oneof![
        4 => (0u8..6, prop::collection::vec(chunk_strategy(), 0..6), any::<u16>()).prop_map(|(name, chunks, flush)| DOp::Write { name, chunks, flush }),
        4 => (0u8..4, prop_oneof![Just(0u32), 1u32..200, 200u32..100_000]).prop_map(|(name, len)| DOp::Atomic { name, len }),
        2 => Just(DOp::SyncDir),
        2 => (0u8..6).prop_map(|name| DOp::Delete { name }),
    ]
}
fn iop_strategy() -> impl Strategy<Value = IOp> {
    prop_oneof![
        10 => (0u8..6).prop_map(IOp::Add),
        2 => any::<u16>().prop_map(IOp::DelUid),
        4 => Just(IOp::Commit),
        1 => Just(IOp::MergeAll),
        1 => Just(IOp::Gc),
    ]
}

// ------------------------------------------------------------------------------------------------ MarkDir (child side)

fn mark(tag: &str) {
    // a system call that strace shows with its full path and that has no effect
    let _ = std::fs::metadata(format!("/tvv-mark/{tag}"));
}

#[derive(Clone, Debug)]
pub struct MarkDir {
    inner: MmapDirectory,
}
struct MarkWriter {
    inner: WritePtr,
    name: String,
    total: u64,
}
impl Write for MarkWriter {
    fn write(&mut self, buf: &[u8]) -> io::Result<usize> {
        let n = self.inner.write(buf)?;
        self.total += n as u64;
        Ok(n)
    }
    fn flush(&mut self) -> io::Result<()> {
        self.inner.flush()
    }
}
impl TerminatingWrite for MarkWriter {
    fn terminate_ref(&mut self, token: AntiCallToken) -> io::Result<()> {
        mark(&format!("te-b/{}/{}", self.total, self.name));
        let r = self.inner.terminate_ref(token);
        mark(&format!("te-e/{}/{}", if r.is_ok() { 0 } else { 1 }, self.name));
        r
    }
}
fn pname(p: &Path) -> String {
    p.to_string_lossy().to_string()
}
impl Directory for MarkDir {
    fn get_file_handle(&self, path: &Path) -> Result<Arc<dyn FileHandle>, OpenReadError> {
        self.inner.get_file_handle(path)
    }
    fn delete(&self, path: &Path) -> Result<(), DeleteError> {
        mark(&format!("de-b/0/{}", pname(path)));
        let r = self.inner.delete(path);
        mark(&format!("de-e/{}/{}", if r.is_ok() { 0 } else { 1 }, pname(path)));
        r
    }
    fn exists(&self, path: &Path) -> Result<bool, OpenReadError> {
        self.inner.exists(path)
    }
    fn open_write(&self, path: &Path) -> Result<WritePtr, OpenWriteError> {
        let w = self.inner.open_write(path)?;
        Ok(io::BufWriter::new(Box::new(MarkWriter { inner: w, name: pname(path), total: 0 })))
    }
    fn atomic_read(&self, path: &Path) -> Result<Vec<u8>, OpenReadError> {
        self.inner.atomic_read(path)
    }
    fn atomic_write(&self, path: &Path, data: &[u8]) -> io::Result<()> {
        mark(&format!("aw-b/{}/{}", data.len(), pname(path)));
        let r = self.inner.atomic_write(path, data);
        mark(&format!("aw-e/{}/{}", if r.is_ok() { 0 } else { 1 }, pname(path)));
        r
    }
    fn sync_directory(&self) -> io::Result<()> {
        mark("sd-b/0/-");
        let r = self.inner.sync_directory();
        mark(&format!("sd-e/{}/-", if r.is_ok() { 0 } else { 1 }));
        r
    }
    fn acquire_lock(&self, lock: &Lock) -> Result<DirectoryLock, LockError> {
        self.inner.acquire_lock(lock)
    }
    fn watch(&self, cb: WatchCallback) -> tantivy::Result<WatchHandle> {
        self.inner.watch(cb)
    }
}

/// `tvv child c01-mmap <case.json> <dir>`
pub fn child_main(args: &[String]) -> i32 {
    let (Some(casefile), Some(dir)) = (args.first(), args.get(1)) else { return 2 };
    let Ok(bytes) = std::fs::read(casefile) else { return 2 };
    let Ok(case) = serde_json::from_slice::<MmapCase>(&bytes) else { return 2 };
    let raw_dir = PathBuf::from(dir).join("raw");
    let ix_dir = PathBuf::from(dir).join("ix");
    if std::fs::create_dir_all(&raw_dir).is_err() || std::fs::create_dir_all(&ix_dir).is_err() {
        return 2;
    }
    // 1. raw Directory program
    let Ok(md) = MmapDirectory::open(&raw_dir) else { return 2 };
    let d = MarkDir { inner: md };
    mark("phase/raw");
    for op in &case.direct {
        match op {
            DOp::Write { name, chunks, flush } => {
                let p = PathBuf::from(format!("f{name}"));
                // open_write refuses to overwrite: delete first (not part of the judged contract if it fails)
                if d.exists(&p).unwrap_or(false) {
                    let _ = d.delete(&p);
                }
                let Ok(mut w) = d.open_write(&p) else { return 3 };
                for (i, c) in chunks.iter().enumerate() {
                    let buf: Vec<u8> = (0..*c).map(|j| (j as u8) ^ (*name).wrapping_mul(31) ^ (i as u8)).collect();
                    if w.write_all(&buf).is_err() {
                        return 3;
                    }
                    if (flush >> (i % 16)) & 1 == 1 && w.flush().is_err() {
                        return 3;
                    }
                }
                if w.terminate().is_err() {
                    return 3;
                }
            }
            DOp::Atomic { name, len } => {
                let buf: Vec<u8> = (0..*len).map(|j| (j as u8) ^ 0x5a).collect();
                if d.atomic_write(Path::new(&format!("a{name}")), &buf).is_err() {
                    return 3;
                }
            }
            DOp::SyncDir => {
                if d.sync_directory().is_err() {
                    return 3;
                }
            }
            DOp::Delete { name } => {
                let _ = d.delete(Path::new(&format!("f{name}")));
            }
        }
    }
    // 2. indexing history
    mark("phase/index");
    let Ok(md) = MmapDirectory::open(&ix_dir) else { return 2 };
    let d = MarkDir { inner: md };
    let (schema, f) = hist_schema();
    let Ok(index) = Index::create(d, schema, Default::default()) else { return 4 };
    let Ok(mut w) = writer(&index, WriterCfg { threads: case.threads.clamp(1, 3) as usize, flush_every: 2, table_bits: 10, merge_threads: 2 }) else { return 4 };
    // merges only where the program asks for one (and waits for it): a policy merge that ends while commit() is
    // returning rewrites meta.json a second time inside the commit window, and the per-commit rule below could not
    // tell the two renames apart (the trace carries no payload)
    w.set_merge_policy(Box::new(tantivy::indexer::NoMergePolicy));
    let mut next_uid = 0u64;
    let mut commits = 0u32;
    let ops: Vec<IOp> = case.index_ops.iter().cloned().chain(std::iter::once(IOp::Commit)).collect();
    for op in &ops {
        match op {
            IOp::Add(g) => {
                let mut doc = TantivyDocument::new();
                doc.add_u64(f.uid, next_uid);
                doc.add_text(f.grp, format!("g{g}"));
                doc.add_text(f.body, format!("w{g} w{}", next_uid % 5));
                doc.add_i64(f.num, *g as i64);
                next_uid += 1;
                if w.add_document(doc).is_err() {
                    return 4;
                }
            }
            IOp::DelUid(raw) => {
                if next_uid > 0 {
                    w.delete_term(Term::from_field_u64(f.uid, idx(*raw, next_uid as usize) as u64));
                }
            }
            IOp::Commit => {
                commits += 1;
                mark(&format!("commit-b/{commits}/-"));
                if w.commit().is_err() {
                    return 4;
                }
                mark(&format!("commit-e/{commits}/-"));
                // the files the published meta.json references
                let Ok(metas) = index.load_metas() else { return 4 };
                for sm in &metas.segments {
                    for p in sm.list_files() {
                        if index.directory().exists(&p).unwrap_or(false) {
                            mark(&format!("ref/{commits}/{}", pname(&p)));
                        }
                    }
                }
                drop(metas);
                mark(&format!("refs-done/{commits}/-"));
            }
            IOp::MergeAll => {
                let ids = index.searchable_segment_ids().unwrap_or_default();
                if ids.len() >= 2 {
                    let _ = w.merge(&ids).wait();
                }
            }
            IOp::Gc => {
                let _ = w.garbage_collect_files().wait();
            }
        }
    }
    let _ = w.wait_merging_threads();
    mark("phase/end");
    0
}

// ------------------------------------------------------------------------------------------------ trace parsing (parent side)

#[derive(Clone, Debug)]
struct Sys {
    tid: u32,
    name: String,
    /// path of the first annotated descriptor argument (`5</path>`), if any
    fd_path: Option<String>,
    /// quoted string arguments
    strs: Vec<String>,
    ret: i64,
    o_creat: bool,
}
fn parse_ret(t: &str) -> i64 {
    // `6</path>`, `-1 ENOENT (...)`, `0`, `?`
    let t = t.trim_start();
    let end = t.char_indices().find(|(i, c)| !(c.is_ascii_digit() || (*i == 0 && *c == '-'))).map(|x| x.0).unwrap_or(t.len());
    t[..end].parse::<i64>().unwrap_or(-1)
}

fn parse_args(name: &str, args: &str) -> (Option<String>, Vec<String>) {
    // first `<digits><path>` annotation
    let mut fd_path = None;
    let b = args.as_bytes();
    let mut i = 0;
    let mut strs = vec![];
    while i < b.len() {
        if b[i] == b'"' {
            // quoted string (strace escapes quotes and backslashes)
            let mut j = i + 1;
            let mut s = String::new();
            while j < b.len() && b[j] != b'"' {
                if b[j] == b'\\' && j + 1 < b.len() {
                    s.push(b[j + 1] as char);
                    j += 2;
                } else {
                    s.push(b[j] as char);
                    j += 1;
                }
            }
            strs.push(s);
            i = j + 1;
        } else if b[i].is_ascii_digit() && fd_path.is_none() && (i == 0 || b[i - 1] == b'(' || b[i - 1] == b' ') {
            let mut j = i;
            while j < b.len() && b[j].is_ascii_digit() {
                j += 1;
            }
            if j < b.len() && b[j] == b'<' {
                let mut k = j + 1;
                while k < b.len() && b[k] != b'>' {
                    k += 1;
                }
                let mut p = args[j + 1..k].to_string();
                if let Some(x) = p.strip_suffix(" (deleted)") {
                    p = x.to_string();
                }
                fd_path = Some(p);
                i = k + 1;
            } else {
                i = j.max(i + 1);
            }
        } else {
            i += 1;
        }
    }
    let _ = name;
    (fd_path, strs)
}

fn parse_trace(text: &str) -> Vec<Sys> {
    let mut out = vec![];
    let mut pending: HashMap<u32, (String, String)> = HashMap::new();
    for line in text.lines() {
        let Some((tid_s, rest)) = line.split_once(char::is_whitespace) else { continue };
        let Ok(tid) = tid_s.trim().parse::<u32>() else { continue };
        let rest = rest.trim_start();
        if rest.starts_with("+++") || rest.starts_with("---") {
            continue;
        }
        if let Some(r) = rest.strip_prefix("<... ") {
            // `<... fsync resumed>) = 0`  or `<... write resumed>, "", 10) = 10`
            let Some((nm, tail)) = r.split_once(" resumed>") else { continue };
            let Some((name, args0)) = pending.remove(&tid) else { continue };
            if name != nm {
                continue;
            }
            let Some(eq) = tail.rfind(" = ") else { continue };
            let args = format!("{args0}{}", &tail[..eq]);
            let ret = parse_ret(&tail[eq + 3..]);
            let (fd_path, strs) = parse_args(&name, &args);
            let o_creat = args.contains("O_CREAT");
            out.push(Sys { tid, name, fd_path, strs, ret, o_creat });
            continue;
        }
        let Some(par) = rest.find('(') else { continue };
        let name = rest[..par].to_string();
        if let Some(x) = rest.strip_suffix(" <unfinished ...>") {
            pending.insert(tid, (name, x[par + 1..].to_string()));
            continue;
        }
        let Some(eq) = rest.rfind(" = ") else { continue };
        let args = &rest[par + 1..eq];
        let ret = parse_ret(&rest[eq + 3..]);
        let (fd_path, strs) = parse_args(&name, args);
        let o_creat = args.contains("O_CREAT") || name == "creat";
        out.push(Sys { tid, name, fd_path, strs, ret, o_creat });
    }
    out
}

fn is_sync(s: &Sys) -> bool {
    (s.name == "fsync" || s.name == "fdatasync") && s.ret == 0
}
fn is_write(s: &Sys) -> bool {
    matches!(s.name.as_str(), "write" | "pwrite64" | "writev" | "pwritev" | "pwritev2") && s.ret >= 0
}
fn is_rename(s: &Sys) -> bool {
    matches!(s.name.as_str(), "rename" | "renameat" | "renameat2") && s.ret == 0 && s.strs.len() >= 2
}
fn is_unlink(s: &Sys) -> bool {
    matches!(s.name.as_str(), "unlink" | "unlinkat") && !s.strs.is_empty()
}
fn is_create(s: &Sys) -> bool {
    matches!(s.name.as_str(), "openat" | "open" | "creat") && s.ret >= 0 && !s.strs.is_empty() && s.o_creat
}
fn marker(s: &Sys) -> Option<(String, String, String)> {
    if !matches!(s.name.as_str(), "statx" | "stat" | "newfstatat" | "lstat") {
        return None;
    }
    let p = s.strs.first()?;
    let t = p.strip_prefix("/tvv-mark/")?;
    let mut it = t.splitn(3, '/');
    let kind = it.next()?.to_string();
    let a = it.next().unwrap_or("").to_string();
    let b = it.next().unwrap_or("").to_string();
    Some((kind, a, b))
}

// ------------------------------------------------------------------------------------------------ the sub-check

pub struct MmapSyscalls;
impl Sub for MmapSyscalls {
    type Case = MmapCase;
    fn name(&self) -> &'static str {
        "mmap_syscalls"
    }
    fn cases(&self, tier: Tier) -> u32 {
        tier.pick(960, 12000)
    }
    fn max_shrink_iters(&self) -> u32 {
        150
    }
    fn strategy(&self, _tier: Tier) -> BoxedStrategy<MmapCase> {
        (prop::collection::vec(dop_strategy(), 0..14), prop::collection::vec(iop_strategy(), 0..30), 1u8..4).prop_map(|(direct, index_ops, threads)| MmapCase { direct, index_ops, threads }).boxed()
    }
    fn mandatory_labels(&self, _t: Tier) -> Vec<&'static str> {
        vec!["atomic_write_checked", "terminate_checked", "sync_directory_checked", "delete_checked", "commit_checked", "write_larger_than_buffer", "commit_after_merge"]
    }
    fn run(&self, c: &MmapCase, cx: &Ctx) -> CaseResult {
        let td = tempfile::Builder::new().prefix("c01mmap").tempdir_in(tmp_root()).or_fail("INFRA:tempdir")?;
        let casefile = td.path().join("case.json");
        std::fs::write(&casefile, serde_json::to_vec(c).unwrap()).or_fail("INFRA:write_case")?;
        let trace = td.path().join("trace.txt");
        let exe = std::env::current_exe().or_fail("INFRA:current_exe")?;
        let work = td.path().join("d");
        std::fs::create_dir_all(&work).or_fail("INFRA:mkdir")?;
        let out = std::process::Command::new("strace")
            .arg("-f")
            .arg("-y")
            .arg("-s")
            .arg("0")
            .arg("-e")
            .arg("trace=openat,open,creat,write,pwrite64,writev,pwritev,pwritev2,fsync,fdatasync,rename,renameat,renameat2,unlink,unlinkat,statx,stat,newfstatat,lstat,ftruncate")
            .arg("-o")
            .arg(&trace)
            .arg(&exe)
            .arg("child")
            .arg("c01-mmap")
            .arg(&casefile)
            .arg(&work)
            .stdout(std::process::Stdio::null())
            .stderr(std::process::Stdio::piped())
            .output()
            .or_fail("INFRA:strace_spawn")?;
        let code = out.status.code().unwrap_or(-1);
        ensure!(code != 2, "INFRA:child_setup", "child exit 2: {}", String::from_utf8_lossy(&out.stderr));
        // 1 = strace itself could not start the child (e.g. the harness binary was replaced while the check ran)
        ensure!(code != 1, "INFRA:strace_failed", "strace exit 1: {}", String::from_utf8_lossy(&out.stderr));
        ensure!(code == 0, "mmap_child_failed", "the fault-free program failed in the child (exit {code}: 3 = raw directory operation, 4 = index operation): {}", String::from_utf8_lossy(&out.stderr));
        let text = std::fs::read_to_string(&trace).or_fail("INFRA:trace_read")?;
        let sys = parse_trace(&text);
        ensure!(sys.iter().any(|s| marker(s).map(|m| m.0 == "phase" && m.1 == "end").unwrap_or(false)), "INFRA:trace_incomplete", "no end marker in {} trace lines; stderr: {}", sys.len(), String::from_utf8_lossy(&out.stderr));
        cx.count("syscalls_traced", sys.len() as u64);
        let raw_dir = work.join("raw").to_string_lossy().to_string();
        let ix_dir = work.join("ix").to_string_lossy().to_string();

        // phase per line
        let mut phase_raw = true;
        // open windows per tid: (kind, a, name, start index)
        let mut open: HashMap<u32, (String, String, String, usize)> = HashMap::new();
        // last index at which each path was written / synced / created, for the commit-level invariant
        let mut last_write: BTreeMap<String, usize> = BTreeMap::new();
        let mut last_sync_after_write: BTreeMap<String, usize> = BTreeMap::new();
        let mut created_at: BTreeMap<String, usize> = BTreeMap::new();
        let mut bytes_written: BTreeMap<String, u64> = BTreeMap::new();
        let mut terminated: BTreeMap<String, usize> = BTreeMap::new();
        let mut dir_syncs: Vec<usize> = vec![];
        let mut meta_renames: Vec<usize> = vec![];
        let mut commit_begin: BTreeMap<u32, usize> = BTreeMap::new();
        let mut commit_end: BTreeMap<u32, usize> = BTreeMap::new();
        let mut refs: BTreeMap<u32, Vec<String>> = BTreeMap::new();
        let mut merged_before_commit = false;
        let dir_of = |raw: bool| if raw { raw_dir.clone() } else { ix_dir.clone() };

        for (i, s) in sys.iter().enumerate() {
            if let Some((kind, a, b)) = marker(s) {
                match kind.as_str() {
                    "phase" => phase_raw = a == "raw",
                    "aw-b" | "te-b" | "sd-b" | "de-b" => {
                        open.insert(s.tid, (kind.clone(), a.clone(), b.clone(), i));
                    }
                    "aw-e" | "te-e" | "sd-e" | "de-e" => {
                        let Some((k0, a0, name, start)) = open.remove(&s.tid) else { fail!("INFRA:marker_mismatch", "end marker {kind} without begin at line {i}") };
                        ensure!(k0[..2] == kind[..2], "INFRA:marker_mismatch", "{k0} closed by {kind}");
                        let ok = a == "0";
                        let window: Vec<(usize, &Sys)> = sys[start + 1..i].iter().enumerate().map(|(j, x)| (start + 1 + j, x)).filter(|(_, x)| x.tid == s.tid).collect();
                        let full = format!("{}/{}", dir_of(phase_raw), name);
                        match &kind[..2] {
                            "aw" if ok => {
                                let len: u64 = a0.parse().unwrap_or(0);
                                let renames: Vec<&(usize, &Sys)> = window.iter().filter(|(_, x)| is_rename(x)).collect();
                                ensure!(renames.len() == 1 && renames[0].1.strs[1] == full, "mmap_contract:atomic_write_without_single_rename", "atomic_write({name}, {len} bytes): {} renames in its window {:?}", renames.len(), renames.iter().map(|r| r.1.strs.clone()).collect::<Vec<_>>());
                                let (ri, r) = (renames[0].0, renames[0].1);
                                let src = r.strs[0].clone();
                                ensure!(!window.iter().any(|(_, x)| is_write(x) && x.fd_path.as_deref() == Some(full.as_str())), "mmap_contract:atomic_write_in_place", "atomic_write({name}) wrote to the target itself");
                                let wr: Vec<&(usize, &Sys)> = window.iter().filter(|(j, x)| *j < ri && is_write(x) && x.fd_path.as_deref() == Some(src.as_str())).collect();
                                let total: u64 = wr.iter().map(|w| w.1.ret as u64).sum();
                                ensure!(total == len, "mmap_contract:atomic_write_incomplete", "atomic_write({name}): {total} of {len} bytes written to {src} before the rename");
                                let lastw = wr.last().map(|w| w.0).unwrap_or(start);
                                let synced = window.iter().any(|(j, x)| *j > lastw && *j < ri && is_sync(x) && x.fd_path.as_deref() == Some(src.as_str()));
                                ensure!(synced, "mmap_contract:atomic_write_not_synced_before_rename", "atomic_write({name}, {len} bytes): no fsync/fdatasync of {src} between its last write and the rename");
                                cx.label("atomic_write_checked");
                                cx.label_if(len == 0, "atomic_write_empty");
                                if full.ends_with("/meta.json") {
                                    meta_renames.push(ri);
                                }
                            }
                            "te" if ok => {
                                let total: u64 = a0.parse().unwrap_or(0);
                                let lastw = window.iter().filter(|(_, x)| is_write(x) && x.fd_path.as_deref() == Some(full.as_str())).map(|(j, _)| *j).max();
                                let synced = window.iter().any(|(j, x)| is_sync(x) && x.fd_path.as_deref() == Some(full.as_str()) && lastw.map(|l| *j > l).unwrap_or(true));
                                ensure!(synced, "mmap_contract:terminate_without_sync", "terminate({name}, {total} bytes): no fsync/fdatasync of the file after its last write");
                                // bytes: everything handed over reached write(2) by now
                                let mut sum = bytes_written.get(&full).copied().unwrap_or(0);
                                for (_, x) in &window {
                                    if is_write(x) && x.fd_path.as_deref() == Some(full.as_str()) {
                                        sum += x.ret as u64;
                                    }
                                }
                                ensure!(sum == total, "mmap_contract:terminate_bytes_missing", "terminate({name}): {sum} bytes reached write(2), {total} were appended");
                                cx.label("terminate_checked");
                                cx.label_if(total > 8192, "write_larger_than_buffer");
                                terminated.insert(full.clone(), i);
                            }
                            "sd" if ok => {
                                let d = dir_of(phase_raw);
                                let hit = window.iter().find(|(_, x)| is_sync(x) && x.fd_path.as_deref().map(|p| p.trim_end_matches('/') == d).unwrap_or(false));
                                ensure!(hit.is_some(), "mmap_contract:sync_directory_without_fsync", "sync_directory(): no fsync/fdatasync on a descriptor of {d}; window: {:?}", window.iter().map(|(_, x)| format!("{} {:?}", x.name, x.fd_path)).collect::<Vec<_>>());
                                dir_syncs.push(hit.unwrap().0);
                                cx.label("sync_directory_checked");
                            }
                            "de" if ok => {
                                ensure!(window.iter().any(|(_, x)| is_unlink(x) && x.ret == 0 && x.strs[0] == full), "mmap_contract:delete_without_unlink", "delete({name}) returned Ok without unlinking {full}");
                                cx.label("delete_checked");
                                created_at.remove(&full);
                                bytes_written.remove(&full);
                                last_write.remove(&full);
                                last_sync_after_write.remove(&full);
                                terminated.remove(&full);
                            }
                            _ => {}
                        }
                    }
                    "commit-b" => {
                        commit_begin.insert(a.parse().unwrap_or(0), i);
                    }
                    "commit-e" => {
                        commit_end.insert(a.parse().unwrap_or(0), i);
                    }
                    "ref" => refs.entry(a.parse().unwrap_or(0)).or_default().push(format!("{ix_dir}/{b}")),
                    _ => {}
                }
                continue;
            }
            // ordinary system calls: bookkeeping (all threads)
            if is_write(s) {
                if let Some(p) = &s.fd_path {
                    if p.starts_with(&raw_dir) || p.starts_with(&ix_dir) {
                        // writes inside an open terminate window of the same thread are added there
                        let in_te = open.get(&s.tid).map(|w| w.0 == "te-b").unwrap_or(false);
                        if !in_te {
                            *bytes_written.entry(p.clone()).or_default() += s.ret as u64;
                        }
                        last_write.insert(p.clone(), i);
                        if let Some(t) = terminated.get(p) {
                            fail!("mmap_contract:write_after_terminate", "{p} written at trace line {i} after its terminate at {t}");
                        }
                    }
                }
            } else if is_sync(s) {
                if let Some(p) = &s.fd_path {
                    last_sync_after_write.insert(p.clone(), i);
                }
            } else if is_create(s) {
                let p = &s.strs[0];
                if (p.starts_with(&raw_dir) || p.starts_with(&ix_dir)) && !created_at.contains_key(p) {
                    created_at.insert(p.clone(), i);
                }
            } else if s.name.starts_with("rename") && is_rename(s) {
                let dst = s.strs[1].clone();
                created_at.insert(dst.clone(), i);
                let _ = dst;
            }
            if s.name == "openat" && s.strs.first().map(|p| p.contains(".merge") ).unwrap_or(false) {
                merged_before_commit = true;
            }
        }
        // commit-level invariant
        for (n, end) in &commit_end {
            let Some(begin) = commit_begin.get(n) else { continue };
            // the rename that published this commit's meta.json: the last one inside the commit call
            let Some(&pub_at) = meta_renames.iter().filter(|r| **r > *begin && **r < *end).last() else {
                fail!("mmap_commit:no_meta_rename", "commit {n} returned without a rename onto meta.json inside the call");
            };
            ensure!(dir_syncs.iter().any(|d| *d > pub_at && *d < *end), "mmap_commit:meta_rename_not_followed_by_dir_sync", "commit {n}: no directory sync between the meta.json rename and the return of commit()");
            for f in refs.get(n).cloned().unwrap_or_default() {
                let lw = last_write.get(&f).copied();
                let ls = last_sync_after_write.get(&f).copied();
                // the file may have been written and synced long before (earlier commit): use the first sync after the last write
                let synced_before_publish = match (lw, ls) {
                    (Some(w), Some(s)) => s > w && first_sync_after(&sys, &f, w).map(|x| x < pub_at).unwrap_or(false),
                    (None, _) => true, // empty file: nothing to sync
                    _ => false,
                };
                ensure!(synced_before_publish, "mmap_commit:referenced_file_not_synced_before_publish", "commit {n}: {f} (last write at {lw:?}) has no data sync before the meta.json rename at {pub_at}");
                let cr = created_at.get(&f).copied().or_else(|| first_open(&sys, &f));
                let Some(cr) = cr else { fail!("INFRA:no_creation_seen", "no creation of {f} in the trace") };
                ensure!(dir_syncs.iter().any(|d| *d > cr && *d < pub_at), "mmap_commit:referenced_file_entry_not_synced_before_publish", "commit {n}: no directory sync between the creation of {f} (line {cr}) and the meta.json rename (line {pub_at})");
            }
            cx.label("commit_checked");
            cx.label_if(merged_before_commit, "commit_after_merge");
            cx.evals(1);
        }
        let _ = merged_before_commit;
        cx.label_if(c.index_ops.iter().any(|o| matches!(o, IOp::MergeAll)) && commit_end.len() >= 2, "commit_after_merge");
        if !c.direct.is_empty() && commit_end.len() >= 2 {
            cx.nontrivial(fp(c));
        }
        cx.sample(|| json!({"sub": "mmap_syscalls", "direct_ops": c.direct.len(), "index_ops": c.index_ops.len(), "syscalls": sys.len(), "commits": commit_end.len(), "dir_syncs": dir_syncs.len()}));
        Ok(())
    }
}

fn first_sync_after(sys: &[Sys], path: &str, after: usize) -> Option<usize> {
    sys.iter().enumerate().skip(after + 1).find(|(_, s)| is_sync(s) && s.fd_path.as_deref() == Some(path)).map(|x| x.0)
}
fn first_open(sys: &[Sys], path: &str) -> Option<usize> {
    sys.iter().position(|s| is_create(s) && s.strs[0] == path)
}
