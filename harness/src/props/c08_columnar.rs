//! C08 layer A — the columnar crate directly: ColumnarWriter -> serialize -> ColumnarReader ->
//! merge_columnar (Stack / Shuffled) against a Vec model.
use std::collections::BTreeMap;
use std::net::Ipv6Addr;

use proptest::prelude::*;
use serde::{Deserialize, Serialize};
use serde_json::json;
use tantivy_columnar::column_values::{serialize_u64_based_column_values, ALL_U64_CODEC_TYPES};
use tantivy_columnar::{
    merge_columnar, BytesColumn, Cardinality, ColumnType, ColumnarReader, ColumnarWriter, DateTime, DynamicColumn, MergeRowOrder,
    RowAddr, ShuffleMergeOrder, StackMergeOrder,
};
use tantivy_common::{BitSet, ReadOnlyBitSet};

use super::c08::*;
use crate::engine::*;
use crate::{ensure, fail};

// ------------------------------------------------------------------------------------------------
// case
#[derive(Clone, Copy, Debug, Serialize, Deserialize, PartialEq, Eq)]
pub enum Kind {
    I64,
    U64,
    F64,
    /// values of all three numeric types in one column (mask bit 0 = i64, 1 = u64, 2 = f64)
    Mixed { mask: u8, big_u_ppm: u32, neg: bool },
    Bool,
    Date,
    Ip,
    Bytes,
    Str,
}
impl Kind {
    fn cat(&self) -> Cat {
        match self {
            Kind::I64 | Kind::U64 | Kind::F64 | Kind::Mixed { .. } => Cat::Num,
            Kind::Bool => Cat::Bool,
            Kind::Date => Cat::Date,
            Kind::Ip => Cat::Ip,
            Kind::Bytes => Cat::Bytes,
            Kind::Str => Cat::Str,
        }
    }
}

/// which rows hold a value
#[derive(Clone, Debug, Serialize, Deserialize)]
pub enum Presence {
    Full,
    Bernoulli { ppm: u32 },
    /// exactly min(count, rows) rows, evenly spread
    Even { count: u32 },
    Prefix { count: u32 },
    Suffix { count: u32 },
    /// all rows but one (position as a fraction)
    AllBut { at: u16 },
    /// explicit rows (fractions)
    Only { at: Vec<u16> },
    Runs { on: u16, off: u16 },
}

/// how many values a present row holds
#[derive(Clone, Debug, Serialize, Deserialize)]
pub enum Multi {
    One,
    Upto { max: u8 },
    /// rows with row % every == 0 hold n values, the others one
    Heavy { every: u16, n: u16 },
}

#[derive(Clone, Debug, Serialize, Deserialize)]
pub enum Profile {
    Const { v: u64 },
    Linear { start: u64, step: u32 },
    /// start + (k << shift): amplitudes up to the whole 64-bit range
    LinearBig { start: u64, shift: u8 },
    /// uniform in 0..2^bits (bit widths of the bit packer, 1..=64)
    Bits { bits: u8 },
    LinearNoise { start: u64, step: u32, noise: u32 },
    /// slope changes every 512 values (favours the block-wise linear codec)
    Piecewise { start: u64, max_slope: u32, noise: u16 },
    /// regular piecewise-linear data with a common divisor: start + mult * (sum of per-block integral slopes), i.e.
    /// block-wise linear with gcd = mult and integral slopes (e.g. timestamps of a sensor sampled at a fixed rate)
    PiecewiseGcd { start: u64, max_slope: u32, mult: u32 },
    Gcd { base: u64, gcd: u32, span: u32 },
    Small { base: u64, span: u32 },
    Wide,
    Extremes,
    Clusters { n: u8, spread: u32 },
}

#[derive(Clone, Debug, Serialize, Deserialize)]
pub struct ColSpec {
    /// index into NAMES
    pub name: u8,
    pub kind: Kind,
    pub presence: Presence,
    pub multi: Multi,
    pub profile: Profile,
    /// probability (ppm) of replacing a value by an extreme of its type
    pub extreme_ppm: u32,
    /// dictionary size for str / bytes
    pub vocab: u32,
    /// declare the column type up front (bypasses coercion, creates the column even if empty)
    pub declare: bool,
    /// str / bytes only: sort_values_within_row (the facet mode)
    pub sort_rows: bool,
    /// mirror the raw value (x -> !x): descending lines, values near the top of the range
    #[serde(default)]
    pub desc: bool,
    pub salt: u32,
}

#[derive(Clone, Debug, Serialize, Deserialize)]
pub enum PermSpec {
    Identity,
    Reverse,
    Random { salt: u32 },
    /// rotate by a fraction
    Rotate { by: u16 },
}

#[derive(Clone, Debug, Serialize, Deserialize)]
pub struct TableSpec {
    pub rows: u32,
    pub cols: Vec<ColSpec>,
    /// old_to_new_row_ids handed to ColumnarWriter::serialize (the sorted-index path)
    pub write_perm: Option<PermSpec>,
}

#[derive(Clone, Debug, Serialize, Deserialize)]
pub enum DelSpec {
    None,
    Bernoulli { ppm: u32, salt: u32 },
    /// delete every row of one table
    WholeTable { t: u16 },
    /// keep only n rows over all tables (evenly spread)
    KeepOnly { n: u32 },
    /// delete one contiguous range of the concatenated rows
    Range { from: u16, to: u16 },
}

#[derive(Clone, Debug, Serialize, Deserialize)]
pub enum OrderSpec {
    /// table after table, rows in order (what a merge with deletes produces)
    Concat,
    /// round robin over the tables
    Interleave,
    Reverse,
    Random { salt: u32 },
    /// k-way merge by a pseudo random key (what a sorted-index merge produces)
    KWay { salt: u32 },
}

#[derive(Clone, Debug, Serialize, Deserialize)]
pub enum MergeSpec {
    None,
    Stack,
    Shuffle { order: OrderSpec, del: DelSpec, alive_none_when_no_deletes: bool },
}

#[derive(Clone, Debug, Serialize, Deserialize)]
pub struct ColumnarCase {
    pub tables: Vec<TableSpec>,
    pub merge: MergeSpec,
    /// merge the merged file once more (stacked on top of table 0): inputs produced by merge_columnar itself
    #[serde(default)]
    pub remerge: bool,
    /// merge once more (stacked) with a numeric column *required* to be an integer type: (column pick, i64 / u64).
    /// Documented contract: the merge fails if an input cannot be coerced - otherwise the column has that type and
    /// exactly the values of the inputs
    #[serde(default)]
    pub required: Option<(u8, bool)>,
    pub queries: Vec<RangeQ>,
}

/// signature of the one known finding of C08 (phase independent on purpose)
pub const INEXACT_KEY: &str = "numeric_coercion_inexact";

const NAMES: [&str; 6] = ["a", "b", "c", "dd", "e.f", "g"];

// ------------------------------------------------------------------------------------------------
// value generation
const U64_EXTREMES: [u64; 11] = [0, 1, u64::MAX, u64::MAX - 1, 1 << 63, (1 << 63) - 1, (1 << 63) + 1, 1 << 32, (1 << 32) - 1, 1 << 53, 2];
const I64_EXTREMES: [i64; 9] = [i64::MIN, i64::MIN + 1, -1, 0, 1, i64::MAX, i64::MAX - 1, -(1 << 53), 1 << 53];
fn f64_extremes() -> [f64; 15] {
    [
        0.0,
        -0.0,
        f64::INFINITY,
        f64::NEG_INFINITY,
        f64::MAX,
        f64::MIN,
        f64::MIN_POSITIVE,
        -f64::MIN_POSITIVE,
        5e-324,
        -5e-324,
        1.0,
        -1.0,
        9007199254740992.0,
        9007199254740994.0,
        0.1,
    ]
}
const IP_EXTREMES: [u128; 9] = [
    0,
    1,
    u128::MAX,
    u128::MAX - 1,
    0xffff_0000_0000,
    0xffff_ffff_ffff,
    1 << 64,
    (1 << 64) - 1,
    1 << 127,
];

fn term_str(idx: u64, salt: u32) -> Vec<u8> {
    // a vocabulary with varied lengths, shared prefixes, the empty string, non-ASCII and a NUL
    match salt % 4 {
        0 => format!("t{idx:06}").into_bytes(),
        1 => {
            if idx == 0 {
                Vec::new()
            } else {
                format!("{}{}", "ab".repeat((idx % 7) as usize), idx).into_bytes()
            }
        }
        2 => match idx % 5 {
            0 => format!("é{idx}").into_bytes(),
            1 => format!("{idx}\u{10ffff}").into_bytes(),
            2 => format!("a\u{0}{idx}").into_bytes(),
            3 => format!("{}-{idx}", "long".repeat(80)).into_bytes(),
            _ => format!("{idx:x}").into_bytes(),
        },
        _ => format!("{:x}", mix(idx, salt as u64)).into_bytes(),
    }
}
fn term_bytes(idx: u64, salt: u32) -> Vec<u8> {
    match salt % 3 {
        0 => {
            let h = mix(idx, salt as u64);
            let len = (h % 9) as usize;
            // prefix with the index so that distinct indexes give distinct terms
            let mut v = idx.to_be_bytes()[8 - ((idx.max(1).ilog2() / 8) as usize + 1)..].to_vec();
            v.extend(h.to_le_bytes()[..len].iter());
            if idx == 0 {
                v.clear();
            }
            v
        }
        1 => {
            let mut v = vec![0xffu8; (idx % 4) as usize];
            v.extend(idx.to_le_bytes());
            v
        }
        _ => {
            let mut v = vec![0u8; (idx % 3) as usize];
            v.extend((idx as u32).to_be_bytes());
            v
        }
    }
}

struct ValGen<'a> {
    spec: &'a ColSpec,
    rng: Sm64,
    k: u64,
    cur: u64,
    slope: u64,
}
impl<'a> ValGen<'a> {
    fn new(spec: &'a ColSpec, table_ord: usize) -> Self {
        let start = match spec.profile {
            Profile::Piecewise { start, .. } | Profile::PiecewiseGcd { start, .. } => start,
            _ => 0,
        };
        ValGen { spec, rng: Sm64::new(mix(spec.salt as u64, table_ord as u64 + 77)), k: 0, cur: start, slope: 0 }
    }
    fn raw(&mut self) -> u64 {
        let k = self.k;
        self.k += 1;
        match self.spec.profile {
            Profile::Const { v } => v,
            Profile::Linear { start, step } => start.wrapping_add((step as u64).wrapping_mul(k)),
            Profile::LinearBig { start, shift } => start.wrapping_add(k.wrapping_shl(shift as u32 % 64)),
            Profile::Bits { bits } => {
                let b = (bits as u32).clamp(1, 64);
                if b == 64 {
                    self.rng.next()
                } else {
                    self.rng.next() & ((1u64 << b) - 1)
                }
            }
            Profile::LinearNoise { start, step, noise } => start.wrapping_add((step as u64).wrapping_mul(k)).wrapping_add(self.rng.below(noise as u64 + 1)),
            Profile::Piecewise { max_slope, noise, .. } => {
                if k % 512 == 0 {
                    self.slope = self.rng.below(max_slope as u64 + 1);
                }
                self.cur = self.cur.wrapping_add(self.slope);
                self.cur.wrapping_add(self.rng.below(noise as u64 + 1))
            }
            Profile::PiecewiseGcd { max_slope, mult, .. } => {
                if k % 512 == 0 {
                    self.slope = 1 + self.rng.below(max_slope as u64);
                }
                self.cur = self.cur.wrapping_add(self.slope.wrapping_mul(mult as u64));
                self.cur
            }
            Profile::Gcd { base, gcd, span } => base.wrapping_add((gcd as u64).wrapping_mul(self.rng.below(span as u64 + 1))),
            Profile::Small { base, span } => base.wrapping_add(self.rng.below(span as u64 + 1)),
            Profile::Wide | Profile::Extremes => self.rng.next(),
            Profile::Clusters { n, spread } => {
                let c = self.rng.below(n.max(1) as u64);
                mix(c, self.spec.salt as u64).wrapping_add(self.rng.below(spread as u64 + 1))
            }
        }
    }
    fn f64_of(&self, x: u64) -> f64 {
        match self.spec.profile {
            Profile::Wide => {
                let f = f64::from_bits(x);
                if f.is_nan() {
                    f64::MAX
                } else {
                    f
                }
            }
            _ => {
                let i = ((x ^ SIGN) as i64).clamp(-(1i64 << 50), 1i64 << 50);
                i as f64 * 0.25
            }
        }
    }
    fn ip_of_raw(&self, x: u64) -> u128 {
        match self.spec.salt % 3 {
            0 => 0xffff_0000_0000u128 | (x & 0xffff_ffff) as u128,
            1 => ((mix(self.spec.salt as u64, x >> 40) as u128) << 64) | x as u128,
            _ => {
                if x & 1 == 0 {
                    0xffff_0000_0000u128 | ((x >> 1) & 0xffff_ffff) as u128
                } else {
                    ((mix(self.spec.salt as u64, x >> 40) as u128) << 64) | x as u128
                }
            }
        }
    }
    fn next(&mut self) -> Val {
        let x = if self.spec.desc { !self.raw() } else { self.raw() };
        let extreme = matches!(self.spec.profile, Profile::Extremes) || self.rng.ppm(self.spec.extreme_ppm);
        let pick = if extreme { self.rng.next() } else { 0 };
        match self.spec.kind {
            Kind::U64 => Val::U(if extreme { U64_EXTREMES[(pick % 11) as usize] } else { x }),
            Kind::I64 => Val::I(if extreme { I64_EXTREMES[(pick % 9) as usize] } else { (x ^ SIGN) as i64 }),
            Kind::F64 => Val::F(if extreme { f64_extremes()[(pick % 15) as usize] } else { self.f64_of(x) }.to_bits()),
            Kind::Date => Val::D(if extreme { I64_EXTREMES[(pick % 9) as usize] } else { (x ^ SIGN) as i64 }),
            Kind::Bool => Val::B(x & 1 == 1),
            Kind::Ip => Val::Ip(if extreme { IP_EXTREMES[(pick % 9) as usize] } else { self.ip_of_raw(x) }),
            Kind::Str => Val::Bin(term_str(if extreme { 0 } else { x % self.spec.vocab.max(1) as u64 }, self.spec.salt)),
            Kind::Bytes => Val::Bin(term_bytes(if extreme { 0 } else { x % self.spec.vocab.max(1) as u64 }, self.spec.salt)),
            Kind::Mixed { mask, big_u_ppm, neg } => {
                let mask = if mask & 7 == 0 { 7 } else { mask & 7 };
                let mut t = self.rng.below(3) as u8;
                while mask & (1 << t) == 0 {
                    t = (t + 1) % 3;
                }
                match t {
                    0 => {
                        let i = if extreme { I64_EXTREMES[(pick % 9) as usize] } else { (x ^ SIGN) as i64 };
                        Val::I(if neg { i } else { i & i64::MAX })
                    }
                    1 => {
                        if self.rng.ppm(big_u_ppm) {
                            Val::U(if extreme { u64::MAX } else { x | SIGN })
                        } else {
                            Val::U((x ^ SIGN) & (i64::MAX as u64))
                        }
                    }
                    _ => Val::F(if extreme { f64_extremes()[(pick % 15) as usize] } else { self.f64_of(x) }.to_bits()),
                }
            }
        }
    }
}

fn present(p: &Presence, row: u32, rows: u32, rng: &mut Sm64) -> bool {
    match p {
        Presence::Full => true,
        Presence::Bernoulli { ppm } => rng.ppm(*ppm),
        Presence::Even { count } => {
            let c = (*count).min(rows) as u64;
            let (r, n) = (row as u64, rows as u64);
            (r + 1) * c / n > r * c / n
        }
        Presence::Prefix { count } => row < *count,
        Presence::Suffix { count } => row >= rows.saturating_sub(*count),
        Presence::AllBut { at } => row != idx(*at, rows as usize) as u32,
        Presence::Only { at } => at.iter().any(|a| idx(*a, rows as usize) as u32 == row),
        Presence::Runs { on, off } => {
            let period = *on as u32 + *off as u32;
            period == 0 || row % period < *on as u32
        }
    }
}

/// model of one table: logical columns by (name, category)
#[derive(Clone, Debug, Default)]
pub struct TableModel {
    pub rows: u32,
    pub cols: BTreeMap<(String, Cat), ColModel>,
    /// (name, cat) -> (declared type, sort_values_within_row)
    pub declared: BTreeMap<(String, Cat), (ColumnType, bool)>,
}

fn build_model(spec: &TableSpec, table_ord: usize) -> TableModel {
    let mut m = TableModel { rows: spec.rows, ..Default::default() };
    for c in &spec.cols {
        let name = NAMES[c.name as usize % NAMES.len()].to_string();
        let key = (name, c.kind.cat());
        if m.cols.contains_key(&key) {
            continue;
        }
        let mut gen = ValGen::new(c, table_ord);
        let mut prng = Sm64::new(mix(c.salt as u64 + 1, table_ord as u64));
        let mut cm = ColModel::new();
        for row in 0..spec.rows {
            if present(&c.presence, row, spec.rows, &mut prng) {
                let n = match c.multi {
                    Multi::One => 1,
                    Multi::Upto { max } => 1 + prng.below(max.max(1) as u64) as usize,
                    Multi::Heavy { every, n } => {
                        if row % every.max(1) as u32 == 0 {
                            // cost cap: at most ~200k values from the heavy rows of one column
                            let heavy_rows = spec.rows / every.max(1) as u32 + 1;
                            (n.max(1) as u32).min((200_000 / heavy_rows).max(2)) as usize
                        } else {
                            1
                        }
                    }
                };
                cm.push_row((0..n).map(|_| gen.next()));
            } else {
                cm.push_row(std::iter::empty());
            }
        }
        let sort_rows = c.sort_rows && matches!(c.kind, Kind::Str | Kind::Bytes);
        if sort_rows {
            // the facet mode: values of a row come back sorted by term
            let mut sorted = ColModel::new();
            for r in 0..cm.rows() {
                let mut v = cm.row(r).to_vec();
                v.sort();
                sorted.push_row(v);
            }
            cm = sorted;
        }
        let declared_ty = match c.kind {
            Kind::I64 => Some(ColumnType::I64),
            Kind::U64 => Some(ColumnType::U64),
            Kind::F64 => Some(ColumnType::F64),
            Kind::Mixed { .. } => None,
            Kind::Bool => Some(ColumnType::Bool),
            Kind::Date => Some(ColumnType::DateTime),
            Kind::Ip => Some(ColumnType::IpAddr),
            Kind::Bytes => Some(ColumnType::Bytes),
            Kind::Str => Some(ColumnType::Str),
        };
        if let Some(ty) = declared_ty {
            if c.declare || sort_rows {
                m.declared.insert(key.clone(), (ty, sort_rows));
            }
        }
        m.cols.insert(key, cm);
    }
    m
}

fn perm_of(p: &PermSpec, n: u32) -> Vec<u32> {
    let mut v: Vec<u32> = (0..n).collect();
    match p {
        PermSpec::Identity => {}
        PermSpec::Reverse => v.reverse(),
        PermSpec::Random { salt } => {
            let mut rng = Sm64::new(*salt as u64);
            for i in (1..v.len()).rev() {
                let j = rng.below(i as u64 + 1) as usize;
                v.swap(i, j);
            }
        }
        PermSpec::Rotate { by } => {
            let k = idx(*by, n as usize);
            v.rotate_left(k);
        }
    }
    v
}

/// writes the table; returns the bytes and the model of what the file must contain
fn write_table(spec: &TableSpec, model: &TableModel) -> Result<(Vec<u8>, TableModel), Failure> {
    let mut w = ColumnarWriter::default();
    for ((name, _), (ty, sort)) in &model.declared {
        w.record_column_type(name, *ty, *sort);
    }
    // sort_rows columns are recorded in insertion order (unsorted): un-sort deterministically by reversing
    for row in 0..model.rows {
        for ((name, cat), cm) in &model.cols {
            let vals = cm.row(row);
            let reversed = model.declared.get(&(name.clone(), *cat)).map(|d| d.1).unwrap_or(false);
            let it: Box<dyn Iterator<Item = &Val>> = if reversed { Box::new(vals.iter().rev()) } else { Box::new(vals.iter()) };
            for v in it {
                match (v, cat) {
                    (Val::I(x), _) => w.record_numerical(row, name, *x),
                    (Val::U(x), _) => w.record_numerical(row, name, *x),
                    (Val::F(b), _) => w.record_numerical(row, name, f64::from_bits(*b)),
                    (Val::B(b), _) => w.record_bool(row, name, *b),
                    (Val::D(n), _) => w.record_datetime(row, name, DateTime::from_timestamp_nanos(*n)),
                    (Val::Ip(x), _) => w.record_ip_addr(row, name, Ipv6Addr::from(*x)),
                    (Val::Bin(b), Cat::Str) => w.record_str(row, name, std::str::from_utf8(b).map_err(|e| Failure::new("INFRA:utf8", format!("{e}")))?),
                    (Val::Bin(b), _) => w.record_bytes(row, name, b),
                }
            }
        }
    }
    let mut buf = Vec::new();
    match &spec.write_perm {
        None => {
            w.serialize(model.rows, None, &mut buf).or_fail("write:serialize_error")?;
            Ok((buf, model.clone()))
        }
        Some(p) => {
            let old_to_new = perm_of(p, model.rows);
            w.serialize(model.rows, Some(&old_to_new), &mut buf).or_fail("write:serialize_error")?;
            let mut new_to_old = vec![0u32; model.rows as usize];
            for (old, new) in old_to_new.iter().enumerate() {
                new_to_old[*new as usize] = old as u32;
            }
            let mut out = TableModel { rows: model.rows, declared: model.declared.clone(), ..Default::default() };
            for (k, cm) in &model.cols {
                let mut ncm = ColModel::new();
                for new in 0..model.rows {
                    ncm.push_row(cm.row(new_to_old[new as usize]).iter().cloned());
                }
                out.cols.insert(k.clone(), ncm);
            }
            Ok((buf, out))
        }
    }
}

// ------------------------------------------------------------------------------------------------
// reader vs model
fn codec_label(keys: &[u128]) -> Option<&'static str> {
    if keys.is_empty() || keys.len() > 300_000 {
        return None;
    }
    let vals: Vec<u64> = keys.iter().map(|k| *k as u64).collect();
    let slice: &[u64] = &vals;
    let mut buf = Vec::new();
    serialize_u64_based_column_values::<u64>(&slice, &ALL_U64_CODEC_TYPES, &mut buf).ok()?;
    Some(match buf.first()? {
        0 => "codec:bitpacked",
        1 => "codec:linear",
        2 => "codec:blockwise_linear",
        _ => return None,
    })
}

fn label_shape(cm_offsets: &[u32], rows: u32, card: Cardinality, cx: &Ctx) -> bool {
    // returns whether the column is "non-trivial" by the property's rule
    let nvals = *cm_offsets.last().unwrap_or(&0);
    cx.label(match card {
        Cardinality::Full => "card:full",
        Cardinality::Optional => "card:optional",
        Cardinality::Multivalued => "card:multivalued",
    });
    let mut nontrivial = false;
    if card != Cardinality::Full && rows > 0 {
        let non_null = (0..rows as usize).filter(|r| cm_offsets[r + 1] > cm_offsets[*r]).count() as u32;
        if non_null > 0 && non_null < rows {
            nontrivial = true;
        }
        // per 65536-row block: sparse or dense, and how close to the switch
        for b in 0..rows.div_ceil(65536) {
            let lo = (b * 65536) as usize;
            let hi = ((b + 1) * 65536).min(rows) as usize;
            let n = (lo..hi).filter(|r| cm_offsets[r + 1] > cm_offsets[*r]).count();
            if n == 0 {
                cx.label("optidx:empty_block");
            } else if n < 5120 {
                cx.label("optidx:sparse_block");
            } else {
                cx.label("optidx:dense_block");
            }
            if (5119..=5121).contains(&n) {
                cx.label("optidx:at_switch(5119..5121)");
            }
            if n == hi - lo && n > 0 {
                cx.label("optidx:block_all_set");
                cx.label_if(n == 65536, "optidx:block_all_65536_set");
            }
        }
        if rows > 65536 {
            cx.label("optidx:multi_block");
        }
    }
    if nvals > 512 {
        cx.label("vals>512");
        nontrivial = true;
    }
    if nvals > 65536 {
        cx.label("vals>65536");
    }
    if rows >= 64 {
        nontrivial = true;
    }
    nontrivial
}

fn exp_from<F: FnMut(&Val) -> Result<u128, String>>(cm: &ColModel, mut f: F) -> Result<Exp, String> {
    let mut keys = Vec::with_capacity(cm.vals.len());
    for v in &cm.vals {
        keys.push(f(v)?);
    }
    Ok(Exp { rows: cm.rows(), offsets: cm.offsets.clone(), keys })
}

pub struct CheckOut {
    pub nontrivial: bool,
}

/// Compares everything the reader exposes with the model of the table.
pub fn check_reader(reader: &ColumnarReader, model: &TableModel, queries: &[RangeQ], cx: &Ctx, phase: &str) -> Result<CheckOut, Failure> {
    let sig = phase;
    ensure!(reader.num_docs() == model.rows, format!("{sig}:table_num_docs"), "reader.num_docs() = {} expected {}", reader.num_docs(), model.rows);
    let mut nontrivial = false;
    // columns found in the file, grouped by (name, category)
    let listed = reader.list_columns().or_fail(&format!("{sig}:list_columns"))?;
    let mut found: BTreeMap<(String, Cat), Vec<DynamicColumn>> = BTreeMap::new();
    for (name, handle) in &listed {
        let col = handle.open().or_fail(&format!("{sig}:open_column"))?;
        ensure!(col.column_type() == handle.column_type(), format!("{sig}:handle_type"), "column {name}: handle says {:?}, column {:?}", handle.column_type(), col.column_type());
        found.entry((name.clone(), cat_of_dynamic(&col))).or_default().push(col);
    }
    ensure!(reader.num_columns() == listed.len(), format!("{sig}:num_columns"), "num_columns() {} but {} listed", reader.num_columns(), listed.len());
    for ((name, cat), cols) in &found {
        ensure!(cols.len() == 1, format!("{sig}:duplicate_column"), "{} columns of category {cat:?} for name {name:?}", cols.len());
        if !model.cols.contains_key(&(name.clone(), *cat)) {
            // a column nobody wrote may exist only if it is empty (e.g. a declared column)
            let c = &cols[0];
            ensure!(c.num_values() == 0, format!("{sig}:phantom_column"), "column {name:?}/{cat:?} holds {} values but nothing was added to it", c.num_values());
        }
    }
    for ((name, cat), cm) in &model.cols {
        let what = format!("{phase} column {name:?}/{cat:?}");
        // read_columns(name) is the public lookup path: it must return the same set as the listing
        let by_name: Vec<DynamicColumn> =
            reader.read_columns(name).or_fail(&format!("{sig}:read_columns"))?.iter().map(|h| h.open()).collect::<Result<_, _>>().or_fail(&format!("{sig}:open_column"))?;
        let mine: Vec<&DynamicColumn> = by_name.iter().filter(|c| cat_of_dynamic(c) == *cat).collect();
        let listed_n = found.get(&(name.clone(), *cat)).map(|v| v.len()).unwrap_or(0);
        ensure!(mine.len() == listed_n, format!("{sig}:read_columns_vs_list"), "{what}: read_columns finds {} columns, list_columns {listed_n}", mine.len());
        if cm.num_vals() == 0 {
            // nothing was added: either no column, or a column that returns nothing for every row
            if let Some(c) = mine.first() {
                ensure!(c.num_values() == 0, format!("{sig}:values_from_nowhere"), "{what}: {} values although none was added", c.num_values());
                cx.label("empty_column_present");
            }
            continue;
        }
        let Some(dc) = mine.first() else {
            fail!(format!("{sig}:column_missing"), "{what}: {} values were added but the reader has no such column (columns of that name: {:?})", cm.num_vals(), by_name.iter().map(|c| c.column_type()).collect::<Vec<_>>())
        };
        nontrivial |= check_dynamic_column(dc, cm, queries, cx, sig, &what)?;
    }
    Ok(CheckOut { nontrivial })
}

/// One column (as opened from a handle) against the model of the logical column; returns whether
/// the column is non-trivial by the property's rule.
pub fn check_dynamic_column(dc: &DynamicColumn, cm: &ColModel, queries: &[RangeQ], cx: &Ctx, sig: &str, what: &str) -> Result<bool, Failure> {
    let what = what.to_string();
    let mut inexact = 0u64;
    let card = dc.get_cardinality();
    let shape_nontrivial = label_shape(&cm.offsets, cm.rows(), card, cx);
    match dc {
        DynamicColumn::I64(col) => {
            let exp = exp_from(cm, |v| num_key(v, NumTy::I64, &mut inexact)).map_err(|e| Failure::new(format!("{sig}:column_type_cannot_represent"), format!("{what}: {e}")))?;
            let ops = TypedOps { to_key: &|v: i64| key_i64(v), from_key: &|k| inv_key_i64(k), dom: (0, u64::MAX as u128), is_f64: false };
            check_typed(col, &exp, &ops, queries, cx, sig, &what)?;
            check_block_accessor(col, &exp, ops.to_key, sig, &what)?;
            cx.label("type:i64");
            if let Some(l) = codec_label(&exp.keys) {
                cx.label(l);
            }
        }
        DynamicColumn::U64(col) => {
            let exp = exp_from(cm, |v| num_key(v, NumTy::U64, &mut inexact)).map_err(|e| Failure::new(format!("{sig}:column_type_cannot_represent"), format!("{what}: {e}")))?;
            let ops = TypedOps { to_key: &|v: u64| v as u128, from_key: &|k| k as u64, dom: (0, u64::MAX as u128), is_f64: false };
            check_typed(col, &exp, &ops, queries, cx, sig, &what)?;
            check_block_accessor(col, &exp, ops.to_key, sig, &what)?;
            cx.label("type:u64");
            if let Some(l) = codec_label(&exp.keys) {
                cx.label(l);
            }
        }
        DynamicColumn::F64(col) => {
            let exp = exp_from(cm, |v| num_key(v, NumTy::F64, &mut inexact)).map_err(|e| Failure::new(format!("{sig}:column_type_cannot_represent"), format!("{what}: {e}")))?;
            let ops = TypedOps {
                to_key: &|v: f64| key_f64_bits(v.to_bits()),
                from_key: &|k| inv_key_f64(k),
                dom: (key_f64_bits(f64::NEG_INFINITY.to_bits()), key_f64_bits(f64::INFINITY.to_bits())),
                is_f64: true,
            };
            check_typed(col, &exp, &ops, queries, cx, sig, &what)?;
            check_block_accessor(col, &exp, ops.to_key, sig, &what)?;
            cx.label("type:f64");
            cx.label_if(exp.keys.contains(&key_f64_bits((-0.0f64).to_bits())), "f64:neg_zero");
            cx.label_if(exp.keys.contains(&key_f64_bits(f64::INFINITY.to_bits())) || exp.keys.contains(&key_f64_bits(f64::NEG_INFINITY.to_bits())), "f64:infinity");
            if inexact > 0 {
                // integers were added that an f64 column cannot hold: the values that come back are rounded.
                // Everything else of this column was compared modulo that rounding above.
                if cx.known_open(INEXACT_KEY) {
                    cx.label("f64_coercion_inexact(known finding)");
                    cx.excluded(INEXACT_KEY, inexact);
                } else {
                    let example = cm.vals.iter().find(|v| match v {
                        Val::I(x) => (*x as f64) as i128 != *x as i128,
                        Val::U(x) => (*x as f64) as u128 != *x as u128,
                        _ => false,
                    });
                    fail!(
                        INEXACT_KEY,
                        "{what}: the column was coerced to f64 although {inexact} of the {} added integers are not representable in f64 (e.g. {example:?} comes back as {:?}); no numeric column type holds all added values exactly",
                        cm.num_vals(),
                        example.map(|v| match v {
                            Val::I(x) => *x as f64,
                            Val::U(x) => *x as f64,
                            _ => 0.0,
                        })
                    );
                }
            }
            if let Some(l) = codec_label(&exp.keys) {
                cx.label(l);
            }
        }
        DynamicColumn::Bool(col) => {
            let exp = exp_from(cm, |v| match v {
                Val::B(b) => Ok(*b as u128),
                o => Err(format!("{o:?} in a bool column")),
            })
            .map_err(|e| Failure::new("INFRA:model", e))?;
            let ops = TypedOps { to_key: &|v: bool| v as u128, from_key: &|k| k != 0, dom: (0, 1), is_f64: false };
            check_typed(col, &exp, &ops, queries, cx, sig, &what)?;
            check_block_accessor(col, &exp, ops.to_key, sig, &what)?;
            cx.label("type:bool");
        }
        DynamicColumn::DateTime(col) => {
            let exp = exp_from(cm, |v| match v {
                Val::D(n) => Ok(key_i64(*n)),
                o => Err(format!("{o:?} in a date column")),
            })
            .map_err(|e| Failure::new("INFRA:model", e))?;
            let ops = TypedOps {
                to_key: &|v: DateTime| key_i64(v.into_timestamp_nanos()),
                from_key: &|k| DateTime::from_timestamp_nanos(inv_key_i64(k)),
                dom: (0, u64::MAX as u128),
                is_f64: false,
            };
            check_typed(col, &exp, &ops, queries, cx, sig, &what)?;
            check_block_accessor(col, &exp, ops.to_key, sig, &what)?;
            cx.label("type:date");
            if let Some(l) = codec_label(&exp.keys) {
                cx.label(l);
            }
        }
        DynamicColumn::IpAddr(col) => {
            let exp = exp_from(cm, |v| match v {
                Val::Ip(x) => Ok(*x),
                o => Err(format!("{o:?} in an ip column")),
            })
            .map_err(|e| Failure::new("INFRA:model", e))?;
            let ops = TypedOps { to_key: &|v: Ipv6Addr| u128::from(v), from_key: &|k| Ipv6Addr::from(k), dom: (0, u128::MAX), is_f64: false };
            check_typed(col, &exp, &ops, queries, cx, sig, &what)?;
            cx.label("type:ip");
            cx.label_if(exp.keys.iter().any(|k| k >> 32 == 0xffff), "ip:v4_mapped");
            cx.label_if(exp.keys.iter().any(|k| k >> 64 != 0), "ip:full_v6");
        }
        DynamicColumn::Bytes(col) => {
            check_dict(col, cm, queries, cx, sig, &what)?;
            cx.label("type:bytes");
        }
        DynamicColumn::Str(col) => {
            let bytes: BytesColumn = col.clone().into();
            check_dict(&bytes, cm, queries, cx, sig, &what)?;
            // the str accessor itself
            let mut s = String::new();
            for r in (0..cm.rows()).step_by((cm.rows() as usize / 64).max(1)) {
                let got: Vec<Vec<u8>> = col
                    .term_ords(r)
                    .map(|o| {
                        s.clear();
                        col.ord_to_str(o, &mut s).map(|_| s.as_bytes().to_vec())
                    })
                    .collect::<Result<_, _>>()
                    .or_fail(&format!("{sig}:ord_to_str"))?;
                let e: Vec<Vec<u8>> = cm
                    .row(r)
                    .iter()
                    .map(|v| match v {
                        Val::Bin(b) => b.clone(),
                        _ => vec![],
                    })
                    .collect();
                ensure!(got == e, format!("{sig}:str_row_values"), "{what}: row {r}: ord_to_str gives {got:?}, expected {e:?}");
            }
            cx.label("type:str");
        }
    }
    Ok(shape_nontrivial)
}

fn check_dict(col: &BytesColumn, cm: &ColModel, queries: &[RangeQ], cx: &Ctx, sig: &str, what: &str) -> CaseResult {
    ensure!(col.num_rows() == cm.rows(), format!("{sig}:num_docs"), "{what}: num_rows() = {} expected {}", col.num_rows(), cm.rows());
    let terms = read_dictionary(col, sig, what)?;
    let mut used = vec![false; terms.len()];
    let exp = exp_from(cm, |v| match v {
        Val::Bin(b) => match terms.binary_search_by(|t| t.as_slice().cmp(b.as_slice())) {
            Ok(i) => {
                used[i] = true;
                Ok(i as u128)
            }
            Err(_) => Err(format!("term {:?} was added but is not in the dictionary ({} terms)", String::from_utf8_lossy(b), terms.len())),
        },
        o => Err(format!("{o:?} in a dictionary column")),
    })
    .map_err(|e| Failure::new(format!("{sig}:term_missing_in_dictionary"), format!("{what}: {e}")))?;
    let max_key = terms.len().saturating_sub(1) as u128;
    let ops = TypedOps { to_key: &|v: u64| v as u128, from_key: &|k| k as u64, dom: (0, max_key), is_f64: false };
    check_typed(col.ords(), &exp, &ops, queries, cx, sig, what)?;
    check_block_accessor(col.ords(), &exp, ops.to_key, sig, what)?;
    if used.iter().any(|u| !*u) {
        cx.label("dict:has_unused_terms");
    }
    cx.label_if(terms.len() > 1000, "dict:terms>1000");
    cx.label_if(terms.iter().any(|t| t.is_empty()), "dict:empty_term");
    if let Some(l) = codec_label(&exp.keys) {
        cx.label(l);
    }
    Ok(())
}

// ------------------------------------------------------------------------------------------------
// merge
fn merged_model(models: &[TableModel], order: &[(u32, u32)]) -> TableModel {
    let mut out = TableModel { rows: order.len() as u32, ..Default::default() };
    let mut keys: Vec<(String, Cat)> = models.iter().flat_map(|m| m.cols.keys().cloned()).collect();
    keys.sort();
    keys.dedup();
    for k in keys {
        let mut cm = ColModel::new();
        for (t, r) in order {
            match models[*t as usize].cols.get(&k) {
                Some(c) => cm.push_row(c.row(*r).iter().cloned()),
                None => cm.push_row(std::iter::empty()),
            }
        }
        out.cols.insert(k, cm);
    }
    out
}

fn shuffle_order(models: &[TableModel], order: &OrderSpec, del: &DelSpec) -> (Vec<(u32, u32)>, Vec<Vec<bool>>) {
    // alive flags per table
    let total: u64 = models.iter().map(|m| m.rows as u64).sum();
    let mut alive: Vec<Vec<bool>> = models.iter().map(|m| vec![true; m.rows as usize]).collect();
    match del {
        DelSpec::None => {}
        DelSpec::Bernoulli { ppm, salt } => {
            let mut rng = Sm64::new(*salt as u64 + 5);
            for t in alive.iter_mut() {
                for a in t.iter_mut() {
                    if rng.ppm(*ppm) {
                        *a = false;
                    }
                }
            }
        }
        DelSpec::WholeTable { t } => {
            let t = idx(*t, models.len());
            alive[t].iter_mut().for_each(|a| *a = false);
        }
        DelSpec::KeepOnly { n } => {
            let c = (*n as u64).min(total);
            let mut g = 0u64;
            for t in alive.iter_mut() {
                for a in t.iter_mut() {
                    *a = total > 0 && (g + 1) * c / total > g * c / total;
                    g += 1;
                }
            }
        }
        DelSpec::Range { from, to } => {
            let a0 = idx(*from, total as usize + 1) as u64;
            let b0 = idx(*to, total as usize + 1) as u64;
            let (lo, hi) = (a0.min(b0), a0.max(b0));
            let mut g = 0u64;
            for t in alive.iter_mut() {
                for a in t.iter_mut() {
                    if g >= lo && g < hi {
                        *a = false;
                    }
                    g += 1;
                }
            }
        }
    }
    let mut addrs: Vec<(u32, u32)> = vec![];
    for (t, fl) in alive.iter().enumerate() {
        for (r, a) in fl.iter().enumerate() {
            if *a {
                addrs.push((t as u32, r as u32));
            }
        }
    }
    match order {
        OrderSpec::Concat => {}
        OrderSpec::Reverse => addrs.reverse(),
        OrderSpec::Interleave => {
            // round robin: sort by (position within table, table)
            let mut pos: Vec<u32> = vec![0; models.len()];
            let mut keyed: Vec<(u32, u32, u32)> = addrs
                .iter()
                .map(|(t, r)| {
                    let p = pos[*t as usize];
                    pos[*t as usize] += 1;
                    (p, *t, *r)
                })
                .collect();
            keyed.sort();
            addrs = keyed.into_iter().map(|(_, t, r)| (t, r)).collect();
        }
        OrderSpec::Random { salt } => {
            let mut rng = Sm64::new(*salt as u64 + 9);
            for i in (1..addrs.len()).rev() {
                let j = rng.below(i as u64 + 1) as usize;
                addrs.swap(i, j);
            }
        }
        OrderSpec::KWay { salt } => {
            // each table keeps its own order; tables are interleaved by increasing pseudo random keys
            let mut rng = Sm64::new(*salt as u64 + 13);
            let mut keys: Vec<u64> = vec![0; models.len()];
            let mut keyed: Vec<(u64, u32, u32)> = addrs
                .iter()
                .map(|(t, r)| {
                    keys[*t as usize] += 1 + rng.below(8);
                    (keys[*t as usize], *t, *r)
                })
                .collect();
            keyed.sort();
            addrs = keyed.into_iter().map(|(_, t, r)| (t, r)).collect();
        }
    }
    (addrs, alive)
}

// ------------------------------------------------------------------------------------------------
pub struct Columnar;

fn rows_strategy(tier: Tier) -> BoxedStrategy<u32> {
    let big = tier.pick(2u32, 5u32);
    prop_oneof![
        10 => 0u32..12,
        10 => prop::sample::select(vec![0u32, 1, 2, 63, 64, 65, 127, 128, 129]),
        10 => 12u32..300,
        14 => prop::sample::select(vec![511u32, 512, 513, 1023, 1024, 1025, 1536, 1537]),
        6 => 300u32..2100,
        14 => prop::sample::select(vec![5119u32, 5120, 5121, 5200, 6000, 10239, 10240, 10241]),
        4 => 5000u32..12000,
        big => prop::sample::select(vec![65535u32, 65536, 65537, 70656, 131072, 131073]),
    ]
    .boxed()
}

fn start_strategy() -> BoxedStrategy<u64> {
    prop_oneof![
        4 => Just(SIGN),
        2 => Just(0u64),
        2 => (0u64..2000).prop_map(|d| SIGN.wrapping_sub(1000).wrapping_add(d)),
        1 => (0u64..100_000).prop_map(|d| u64::MAX - d),
        1 => (0u64..100_000).prop_map(|d| SIGN - 1 - d),
        2 => any::<u64>(),
        1 => (0u64..1u64 << 40).prop_map(|d| SIGN + d),
    ]
    .boxed()
}

fn profile_strategy() -> BoxedStrategy<Profile> {
    prop_oneof![
        2 => start_strategy().prop_map(|v| Profile::Const { v }),
        // steps over every magnitude up to 2^32 (log-uniform), not only small ones
        3 => (start_strategy(), prop_oneof![2 => 0u32..20, 2 => 1000u32..100_000, 3 => (3u32..32, any::<u32>()).prop_map(|(b, r)| (1u32 << b) | (r & ((1u32 << b) - 1))), 1 => Just(u32::MAX)]).prop_map(|(start, step)| Profile::Linear { start, step }),
        2 => (start_strategy(), prop_oneof![1u32..4, 1u32..200], prop_oneof![2 => 2u32..1000, 3 => (10u32..31, any::<u32>()).prop_map(|(b, r)| (1u32 << b) | (r & ((1u32 << b) - 1))), 1 => Just(1_000_000u32), 1 => Just(5_000_000u32)]).prop_map(|(start, max_slope, mult)| Profile::PiecewiseGcd { start, max_slope, mult }),
        1 => (start_strategy(), 30u8..63).prop_map(|(start, shift)| Profile::LinearBig { start, shift }),
        3 => prop_oneof![1u8..=64, 55u8..=58, 62u8..=64].prop_map(|bits| Profile::Bits { bits }),
        3 => (start_strategy(), 1u32..5000, prop_oneof![1u32..16, 100u32..100_000]).prop_map(|(start, step, noise)| Profile::LinearNoise { start, step, noise }),
        4 => (start_strategy(), prop_oneof![1u32..100, 1000u32..1_000_000], 0u16..8).prop_map(|(start, max_slope, noise)| Profile::Piecewise { start, max_slope, noise }),
        2 => (start_strategy(), prop_oneof![2u32..1000, Just(1_000_000u32), Just(1u32 << 31)], 0u32..5000).prop_map(|(base, gcd, span)| Profile::Gcd { base, gcd, span }),
        3 => (start_strategy(), prop_oneof![0u32..4, 4u32..70_000, Just(u32::MAX)]).prop_map(|(base, span)| Profile::Small { base, span }),
        2 => Just(Profile::Wide),
        2 => Just(Profile::Extremes),
        2 => (prop_oneof![1u8..9, 9u8..=255], prop_oneof![0u32..100, 1000u32..1_000_000]).prop_map(|(n, spread)| Profile::Clusters { n, spread }),
    ]
    .boxed()
}

fn presence_strategy() -> BoxedStrategy<Presence> {
    prop_oneof![
        6 => Just(Presence::Full),
        5 => prop_oneof![Just(10u32), Just(100u32), 100u32..20_000, 20_000u32..980_000, 980_000u32..1_000_000, Just(78_125u32), Just(500_000u32)].prop_map(|ppm| Presence::Bernoulli { ppm }),
        5 => prop_oneof![prop::sample::select(vec![5119u32, 5120, 5121]), 1u32..70, 4000u32..7000, prop::sample::select(vec![65535u32, 65536, 511, 512, 513])].prop_map(|count| Presence::Even { count }),
        2 => prop_oneof![0u32..70, prop::sample::select(vec![512u32, 5120, 5121, 65536, 65537])].prop_map(|count| Presence::Prefix { count }),
        2 => prop_oneof![0u32..70, prop::sample::select(vec![512u32, 5120, 5121, 65536, 65537])].prop_map(|count| Presence::Suffix { count }),
        2 => prop_oneof![Just(0u16), Just(u16::MAX), any::<u16>()].prop_map(|at| Presence::AllBut { at }),
        2 => prop::collection::vec(prop_oneof![Just(0u16), Just(u16::MAX), any::<u16>()], 0..4).prop_map(|at| Presence::Only { at }),
        2 => (1u16..300, 1u16..300).prop_map(|(on, off)| Presence::Runs { on, off }),
    ]
    .boxed()
}

fn col_strategy() -> BoxedStrategy<ColSpec> {
    let kind = prop_oneof![
        4 => Just(Kind::I64),
        4 => Just(Kind::U64),
        4 => Just(Kind::F64),
        5 => (1u8..8, prop_oneof![Just(0u32), Just(1000u32), Just(500_000u32)], any::<bool>()).prop_map(|(mask, big_u_ppm, neg)| Kind::Mixed { mask, big_u_ppm, neg }),
        2 => Just(Kind::Bool),
        3 => Just(Kind::Date),
        4 => Just(Kind::Ip),
        3 => Just(Kind::Bytes),
        4 => Just(Kind::Str),
    ];
    let multi = prop_oneof![
        6 => Just(Multi::One),
        4 => (1u8..5).prop_map(|max| Multi::Upto { max }),
        1 => (1u16..400, 2u16..700).prop_map(|(every, n)| Multi::Heavy { every, n }),
    ];
    (
        (0u8..NAMES.len() as u8, kind, presence_strategy(), multi, profile_strategy()),
        (prop_oneof![4 => Just(0u32), 2 => Just(1000u32), 1 => Just(100_000u32)], prop_oneof![Just(1u32), 2u32..40, 40u32..3000, Just(70_000u32)], any::<bool>(), prop::bool::weighted(0.15), prop::bool::weighted(0.2), any::<u32>()),
    )
        .prop_map(|((name, kind, presence, multi, profile), (extreme_ppm, vocab, declare, sort_rows, desc, salt))| ColSpec {
            name,
            kind,
            presence,
            multi,
            profile,
            extreme_ppm,
            vocab,
            declare,
            sort_rows,
            desc,
            salt,
        })
        .boxed()
}

fn perm_strategy() -> BoxedStrategy<PermSpec> {
    prop_oneof![Just(PermSpec::Identity), Just(PermSpec::Reverse), any::<u32>().prop_map(|salt| PermSpec::Random { salt }), any::<u16>().prop_map(|by| PermSpec::Rotate { by })].boxed()
}

fn table_strategy(tier: Tier) -> BoxedStrategy<TableSpec> {
    (rows_strategy(tier), prop::collection::vec(col_strategy(), 1..5), prop::option::weighted(0.2, perm_strategy()))
        .prop_map(|(rows, mut cols, write_perm)| {
            // big tables: fewer columns (cost)
            if rows > 20_000 {
                cols.truncate(2);
            }
            TableSpec { rows, cols, write_perm }
        })
        .boxed()
}

pub fn query_strategy() -> BoxedStrategy<RangeQ> {
    (prop_oneof![4 => Just(0u8), 2 => Just(1u8), 1 => Just(2u8), 1 => Just(3u8), 1 => Just(4u8), 1 => Just(5u8), 2 => Just(6u8)], any::<u16>(), any::<u16>(), prop_oneof![3 => Just(0u8), 2 => Just(1u8), 2 => Just(2u8)], any::<u16>(), any::<u16>())
        .prop_map(|(mode, lo, hi, dmode, d0, d1)| RangeQ { mode, lo, hi, dmode, d0, d1 })
        .boxed()
}

impl Sub for Columnar {
    type Case = ColumnarCase;
    fn name(&self) -> &'static str {
        "columnar"
    }
    fn cases(&self, tier: Tier) -> u32 {
        tier.pick(2600, 100_000)
    }
    fn max_shrink_iters(&self) -> u32 {
        600
    }
    fn strategy(&self, tier: Tier) -> BoxedStrategy<ColumnarCase> {
        let del = prop_oneof![
            3 => Just(DelSpec::None),
            5 => (prop_oneof![Just(1000u32), 1000u32..900_000, Just(990_000u32)], any::<u32>()).prop_map(|(ppm, salt)| DelSpec::Bernoulli { ppm, salt }),
            1 => any::<u16>().prop_map(|t| DelSpec::WholeTable { t }),
            2 => prop_oneof![0u32..5, 5u32..6000].prop_map(|n| DelSpec::KeepOnly { n }),
            2 => (any::<u16>(), any::<u16>()).prop_map(|(from, to)| DelSpec::Range { from, to }),
        ];
        let order = prop_oneof![
            3 => Just(OrderSpec::Concat),
            2 => Just(OrderSpec::Interleave),
            1 => Just(OrderSpec::Reverse),
            3 => any::<u32>().prop_map(|salt| OrderSpec::Random { salt }),
            3 => any::<u32>().prop_map(|salt| OrderSpec::KWay { salt }),
        ];
        let merge = prop_oneof![
            1 => Just(MergeSpec::None),
            4 => Just(MergeSpec::Stack),
            6 => (order, del, any::<bool>()).prop_map(|(order, del, alive_none_when_no_deletes)| MergeSpec::Shuffle { order, del, alive_none_when_no_deletes }),
        ];
        (prop::collection::vec(table_strategy(tier), 1..6), merge, prop::bool::weighted(0.25), prop::collection::vec(query_strategy(), 2..8), prop::option::weighted(0.35, (any::<u8>(), any::<bool>())))
            .prop_map(|(mut tables, merge, remerge, queries, required)| {
                // at most one big table per case, and then at most 3 tables (cost)
                let mut seen_big = false;
                for t in tables.iter_mut() {
                    if t.rows > 20_000 {
                        if seen_big {
                            t.rows %= 4096;
                        }
                        seen_big = true;
                    }
                }
                if seen_big {
                    tables.truncate(3);
                }
                ColumnarCase { tables, merge, remerge, required, queries }
            })
            .boxed()
    }
    fn mandatory_labels(&self, tier: Tier) -> Vec<&'static str> {
        let mut v = vec![
            "card:full",
            "card:optional",
            "card:multivalued",
            "type:i64",
            "type:u64",
            "type:f64",
            "type:bool",
            "type:date",
            "type:ip",
            "type:bytes",
            "type:str",
            "codec:bitpacked",
            "codec:linear",
            "codec:blockwise_linear",
            "optidx:sparse_block",
            "optidx:dense_block",
            "optidx:at_switch(5119..5121)",
            "optidx:multi_block",
            "vals>512",
            "rows:0",
            "rows:1",
            "rows:63..65",
            "rows:511..513",
            "rows:65535..65537",
            "merge:stack",
            "merge:shuffle",
            "merge:shuffle_with_deletes",
            "merge:alive_bitset_none",
            "merge:numeric_types_differ",
            "merge:column_sets_differ",
            "merge:dictionaries_differ",
            "merge:inputs>=3",
            "f64:neg_zero",
            "f64:infinity",
            "ip:v4_mapped",
            "ip:full_v6",
            "range:nonempty_result",
            "range:empty_result",
            "range:sub_docrange",
            "write_perm",
            "mixed_numeric_column",
            "merge:of_a_merged_file", "merge:required_type_accepted", "merge:required_type_refused_for_values_that_do_not_fit", "merge:required_i64_refused_for_u64_values_on_both_sides_of_i64_max",
            "dict:terms>1000",
        ];
        if tier == Tier::Thorough {
            v.push("rows:131073");
            v.push("optidx:block_all_65536_set");
            v.push("vals>65536");
        }
        v
    }
    fn run(&self, c: &ColumnarCase, cx: &Ctx) -> CaseResult {
        let mut nontrivial = false;
        let mut models: Vec<TableModel> = vec![];
        let mut readers: Vec<ColumnarReader> = vec![];
        for (ti, t) in c.tables.iter().enumerate() {
            let m0 = build_model(t, ti);
            let (buf, m) = write_table(t, &m0)?;
            let reader = ColumnarReader::open(buf).or_fail("write:open_error")?;
            let out = check_reader(&reader, &m, &c.queries, cx, "write")?;
            nontrivial |= out.nontrivial;
            cx.evals(m.cols.len() as u64);
            cx.count("columns_checked", m.cols.len() as u64);
            cx.count("tables_written", 1);
            match t.rows {
                0 => cx.label("rows:0"),
                1 => cx.label("rows:1"),
                63..=65 => cx.label("rows:63..65"),
                511..=513 => cx.label("rows:511..513"),
                65535..=65537 => cx.label("rows:65535..65537"),
                131073 => cx.label("rows:131073"),
                _ => {}
            }
            cx.label_if(t.write_perm.is_some() && t.rows > 1, "write_perm");
            cx.label_if(t.cols.iter().any(|c| matches!(c.kind, Kind::Mixed { .. })), "mixed_numeric_column");
            models.push(m);
            readers.push(reader);
        }
        let refs: Vec<&ColumnarReader> = readers.iter().collect();
        let mut merged_rows = None;
        let mut merged_keep: Option<(ColumnarReader, TableModel)> = None;
        match &c.merge {
            MergeSpec::None => {}
            MergeSpec::Stack => {
                let mut out = Vec::new();
                merge_columnar(&refs, &[], MergeRowOrder::Stack(StackMergeOrder::stack(&refs)), &mut out).or_fail("merge_stack:error")?;
                let order: Vec<(u32, u32)> = models.iter().enumerate().flat_map(|(t, m)| (0..m.rows).map(move |r| (t as u32, r))).collect();
                let expected = merged_model(&models, &order);
                let merged = ColumnarReader::open(out).or_fail("merge_stack:open_error")?;
                let o = check_reader(&merged, &expected, &c.queries, cx, "merge_stack")?;
                nontrivial |= o.nontrivial && models.len() > 1;
                cx.label("merge:stack");
                merged_rows = Some(expected.rows);
                cx.evals(expected.cols.len() as u64);
                merged_keep = Some((merged, expected));
            }
            MergeSpec::Shuffle { order, del, alive_none_when_no_deletes } => {
                let (addrs, alive) = shuffle_order(&models, order, del);
                let mut bitsets: Vec<Option<ReadOnlyBitSet>> = vec![];
                let mut any_deleted = false;
                let mut any_none = false;
                for (ti, fl) in alive.iter().enumerate() {
                    let deleted = fl.iter().any(|a| !*a);
                    any_deleted |= deleted;
                    if !deleted && *alive_none_when_no_deletes {
                        bitsets.push(None);
                        any_none = true;
                    } else {
                        let mut bs = BitSet::with_max_value(models[ti].rows);
                        for (r, a) in fl.iter().enumerate() {
                            if *a {
                                bs.insert(r as u32);
                            }
                        }
                        bitsets.push(Some(ReadOnlyBitSet::from(&bs)));
                    }
                }
                let mo = ShuffleMergeOrder { new_row_id_to_old_row_id: addrs.iter().map(|(t, r)| RowAddr { segment_ord: *t, row_id: *r }).collect(), alive_bitsets: bitsets };
                let mut out = Vec::new();
                merge_columnar(&refs, &[], MergeRowOrder::Shuffled(mo), &mut out).or_fail("merge_shuffle:error")?;
                let expected = merged_model(&models, &addrs);
                let merged = ColumnarReader::open(out).or_fail("merge_shuffle:open_error")?;
                let o = check_reader(&merged, &expected, &c.queries, cx, "merge_shuffle")?;
                nontrivial |= any_deleted || (o.nontrivial && models.len() > 1);
                cx.label("merge:shuffle");
                cx.label_if(any_deleted, "merge:shuffle_with_deletes");
                cx.label_if(any_none, "merge:alive_bitset_none");
                cx.label_if(alive.iter().any(|fl| !fl.is_empty() && fl.iter().all(|a| !*a)), "merge:whole_input_deleted");
                merged_rows = Some(expected.rows);
                cx.evals(expected.cols.len() as u64);
                merged_keep = Some((merged, expected));
            }
        }
        if let (true, Some((merged, mm))) = (c.remerge, merged_keep.as_ref()) {
            if (mm.rows as u64) + (models[0].rows as u64) < 400_000 {
                let inputs: Vec<&ColumnarReader> = vec![merged, &readers[0]];
                let mut out = Vec::new();
                merge_columnar(&inputs, &[], MergeRowOrder::Stack(StackMergeOrder::stack(&inputs)), &mut out).or_fail("remerge:error")?;
                let two = vec![mm.clone(), models[0].clone()];
                let order: Vec<(u32, u32)> = two.iter().enumerate().flat_map(|(t, m)| (0..m.rows).map(move |r| (t as u32, r))).collect();
                let expected = merged_model(&two, &order);
                let re = ColumnarReader::open(out).or_fail("remerge:open_error")?;
                check_reader(&re, &expected, &c.queries, cx, "remerge")?;
                cx.label("merge:of_a_merged_file");
                cx.evals(expected.cols.len() as u64);
            }
        }
        if let Some((pick, as_i64)) = c.required {
            let total_rows: u64 = models.iter().map(|m| m.rows as u64).sum();
            let mut num_keys: Vec<(String, Cat)> = models.iter().flat_map(|m| m.cols.iter().filter(|(k, c)| k.1 == Cat::Num && c.num_vals() > 0).map(|(k, _)| k.clone())).collect();
            num_keys.sort();
            num_keys.dedup();
            if !num_keys.is_empty() && total_rows < 300_000 {
                let key = num_keys[pick as usize % num_keys.len()].clone();
                let ty = if as_i64 { ColumnType::I64 } else { ColumnType::U64 };
                let order: Vec<(u32, u32)> = models.iter().enumerate().flat_map(|(t, m)| (0..m.rows).map(move |r| (t as u32, r))).collect();
                let expected = merged_model(&models, &order);
                let cm = &expected.cols[&key];
                let fits = cm.vals.iter().all(|v| match v {
                    Val::I(x) => as_i64 || *x >= 0,
                    Val::U(x) => !as_i64 || *x <= i64::MAX as u64,
                    _ => false,
                });
                let mixed_u64 = cm.vals.iter().any(|v| matches!(v, Val::U(x) if *x > i64::MAX as u64)) && cm.vals.iter().any(|v| matches!(v, Val::U(x) if *x <= i64::MAX as u64));
                let mut out = Vec::new();
                match merge_columnar(&refs, &[(key.0.clone(), ty)], MergeRowOrder::Stack(StackMergeOrder::stack(&refs)), &mut out) {
                    Err(_) => {
                        cx.label("merge:required_type_refused");
                        cx.label_if(!fits, "merge:required_type_refused_for_values_that_do_not_fit");
                        cx.label_if(as_i64 && mixed_u64 && cm.vals.iter().all(|v| matches!(v, Val::U(_))), "merge:required_i64_refused_for_u64_values_on_both_sides_of_i64_max");
                    }
                    Ok(()) => {
                        cx.label("merge:required_type_accepted");
                        cx.label_if(as_i64 && mixed_u64, "merge:required_i64_over_u64_values_on_both_sides_of_i64_max");
                        let merged = ColumnarReader::open(out).or_fail("merge_required:open_error")?;
                        let cols: Vec<DynamicColumn> = merged.read_columns(&key.0).or_fail("merge_required:read_columns")?.iter().map(|h| h.open()).collect::<Result<_, _>>().or_fail("merge_required:open_column")?;
                        let nums: Vec<&DynamicColumn> = cols.iter().filter(|c| cat_of_dynamic(c) == Cat::Num).collect();
                        ensure!(nums.len() == 1, "merge_required:numeric_column_count", "column {:?} required as {ty:?}: {} numeric columns in the merged file", key.0, nums.len());
                        let got_ty = match nums[0] {
                            DynamicColumn::I64(_) => ColumnType::I64,
                            DynamicColumn::U64(_) => ColumnType::U64,
                            _ => ColumnType::F64,
                        };
                        ensure!(got_ty == ty, "merge_required:wrong_type", "column {:?} required as {ty:?}, merged file has {got_ty:?}", key.0);
                        // the values are exactly the inputs' (a value the type cannot hold means the merge had to fail)
                        check_dynamic_column(nums[0], cm, &c.queries, cx, "merge_required", &format!("column {:?} required as {ty:?}", key.0))?;
                        cx.evals(1);
                    }
                }
            }
        }
        if merged_rows.is_some() {
            cx.label_if(models.len() >= 3, "merge:inputs>=3");
            // what differs between the inputs
            let mut keys: Vec<(String, Cat)> = models.iter().flat_map(|m| m.cols.iter().filter(|(_, c)| c.num_vals() > 0).map(|(k, _)| k.clone())).collect();
            keys.sort();
            keys.dedup();
            let mut sets_differ = false;
            let mut types_differ = false;
            let mut dicts_differ = false;
            for k in &keys {
                let holders: Vec<usize> = (0..models.len()).filter(|t| models[*t].cols.get(k).map(|c| c.num_vals() > 0).unwrap_or(false)).collect();
                if holders.len() < models.len() && models.iter().any(|m| m.rows > 0) {
                    sets_differ = true;
                }
                if holders.len() >= 2 {
                    if k.1 == Cat::Num {
                        let tys: Vec<ColumnType> = holders
                            .iter()
                            .filter_map(|t| readers[*t].read_columns(&k.0).ok())
                            .flat_map(|hs| hs.into_iter().map(|h| h.column_type()).filter(|t| matches!(t, ColumnType::I64 | ColumnType::U64 | ColumnType::F64)).collect::<Vec<_>>())
                            .collect();
                        if tys.windows(2).any(|w| w[0] != w[1]) {
                            types_differ = true;
                        }
                    }
                    if k.1 == Cat::Str || k.1 == Cat::Bytes {
                        let sets: Vec<std::collections::BTreeSet<&Val>> = holders.iter().map(|t| models[*t].cols[k].vals.iter().collect()).collect();
                        if sets.windows(2).any(|w| w[0] != w[1]) {
                            dicts_differ = true;
                        }
                    }
                }
            }
            cx.label_if(sets_differ, "merge:column_sets_differ");
            cx.label_if(types_differ, "merge:numeric_types_differ");
            cx.label_if(dicts_differ, "merge:dictionaries_differ");
        }
        if nontrivial {
            cx.nontrivial(fp(c));
        }
        cx.sample(|| {
            json!({"sub":"columnar","tables": c.tables.iter().map(|t| json!({"rows": t.rows, "cols": t.cols.iter().map(|c| format!("{}:{:?}:{:?}:{:?}", NAMES[c.name as usize % NAMES.len()], c.kind, c.presence, c.multi)).collect::<Vec<_>>()})).collect::<Vec<_>>(), "merge": format!("{:?}", c.merge)})
        });
        Ok(())
    }
}
