//! C04 — merging never changes the logical content of the index.
use std::collections::BTreeMap;
use std::time::Duration;

use proptest::prelude::*;
use serde::{Deserialize, Serialize};
use serde_json::json;
use tantivy::index::SegmentId;
use tantivy::indexer::NoMergePolicy;
use tantivy::{Index, IndexSettings, IndexSortByField, Order, ReloadPolicy, Term};

use crate::dump::{dump_segment, DocDump, SegDump};
use crate::engine::*;
use crate::hist::*;
use crate::rich::*;
use crate::simdir::{GateSpec, K};
use crate::util::{writer, WriterCfg};
use crate::{ensure, fail};

pub fn def() -> PropDef {
    PropDef {
        id: "C04",
        level: "translation_validation",
        rule: "translate: generated multi-segment indexes (1-6 segments of 0-300 rich documents: multi-valued positional text, multi-valued string and i64 fast fields, optional f64, freq-only text, bytes payload; deletes hitting earlier and current segments; doc-store block size tiny or default so that stores are stacked or re-compressed; sorted by a u64 key asc/desc or unsorted) x a generated non-empty subset and order of segments passed to IndexWriter::merge. Every merge is validated as a translation: the canonical dump (stored fields, every fast value bit-exact, field-norm ids, per term tf and positions) of the merged segment's documents must be the sources' live documents, each source contiguous and in order (unsorted) or in sort order with the same multiset (sorted); dictionary doc_freq == number of live documents containing the term and > 0; untouched segments keep their dump; only-dead sources produce no segment. Non-trivial = a source has deleted documents, or >= 3 sources, or a source store with >= 6 blocks; distinct by hash(case). sched: the merge thread is held at a generated storage operation (SimDir gate) while the controller runs generated deletes + commits / rollback / delete-all / gc, then released; oracle = sequential model after every commit and at the end + no-orphan predicate. policy_hist: generated histories (adds, deletes by uid / group / range, commits, aborts, rollbacks, writer restarts) under a merge policy that fires all the time on committed and uncommitted segments (2-3 segments per merge, a segment cut every 1-2 documents, 1-4 threads); the sequential model must hold after every commit, abort, rollback and restart.",
        assumptions: vec![
            "total_num_tokens is excluded (documented as an estimate after deletes)",
            "pre-emption points of the merge thread are storage operations (SimDir gates), not arbitrary instructions",
            "any concatenation order of the sources is accepted for an unsorted index (each source contiguous and internally ordered)",
        ],
        subs: vec![Box::new(Translate), Box::new(Sched), Box::new(PolicyHist)],
    }
}

#[derive(Clone, Debug, Serialize, Deserialize)]
pub struct SegSpec {
    pub docs: Vec<RichDoc>,
    /// replicate the document list this many times (new uids) to reach posting lists > 128
    pub repeat: u8,
    /// deletes issued after the adds of this segment: indexes into all uids so far
    pub deletes: Vec<u16>,
    /// delete every document of this segment (a segment with only dead documents)
    #[serde(default)]
    pub kill_all: bool,
}
#[derive(Clone, Debug, Serialize, Deserialize)]
pub struct TranslateCase {
    pub sorted: Option<bool>,
    pub tiny_blocks: bool,
    pub segments: Vec<SegSpec>,
    /// bit mask over the searchable segments (ordered by smallest uid)
    pub pick: u16,
    /// rotation applied to the chosen ids, and whether to reverse them
    pub rot: u8,
    pub rev: bool,
    /// choose exactly the segments without live documents (if there are any)
    #[serde(default)]
    pub prefer_dead: bool,
}

/// None = the document has no sort value (kept first in an ascending, last in a descending segment: `None < Some`)
fn sort_key_of(d: &DocDump) -> Option<u64> {
    d.fast.iter().find(|(n, _)| n == "sortkey").and_then(|(_, v)| v.first()).and_then(|s| s.parse().ok())
}

pub struct Translate;
impl Sub for Translate {
    type Case = TranslateCase;
    fn name(&self) -> &'static str {
        "translate"
    }
    fn cases(&self, tier: Tier) -> u32 {
        tier.pick(3000, 40000)
    }
    fn max_shrink_iters(&self) -> u32 {
        600
    }
    fn strategy(&self, _tier: Tier) -> BoxedStrategy<TranslateCase> {
        let seg = (prop::collection::vec(rich_doc_strategy(), 0..40), prop_oneof![6 => Just(1u8), 2 => 2u8..5, 1 => 5u8..9], prop::collection::vec(any::<u16>(), 0..6), prop::bool::weighted(0.12))
            .prop_map(|(docs, repeat, deletes, kill_all)| SegSpec { docs, repeat, deletes, kill_all });
        (
            prop_oneof![3 => Just(None), 1 => Just(Some(true)), 1 => Just(Some(false))],
            any::<bool>(),
            prop::collection::vec(seg, 1..7),
            prop_oneof![1 => Just(0xffffu16), 3 => any::<u16>()],
            any::<u8>(),
            any::<bool>(),
            prop::bool::weighted(0.2),
        )
            .prop_map(|(sorted, tiny_blocks, segments, pick, rot, rev, prefer_dead)| TranslateCase { sorted, tiny_blocks, segments, pick, rot, rev, prefer_dead })
            .boxed()
    }
    fn mandatory_labels(&self, _t: Tier) -> Vec<&'static str> {
        vec!["source_with_deletes", "sources>=3", "store_blocks>=6_no_deletes", "sorted", "posting_list>128", "single_source"]
    }
    fn run(&self, c: &TranslateCase, cx: &Ctx) -> CaseResult {
        let (schema, f) = rich_schema();
        let settings = IndexSettings {
            sort_by_field: c.sorted.map(|asc| IndexSortByField { field: "sortkey".into(), order: if asc { Order::Asc } else { Order::Desc } }),
            docstore_blocksize: if c.tiny_blocks { 64 } else { 16384 },
            ..Default::default()
        };
        let index = Index::builder().schema(schema.clone()).settings(settings).create_in_ram().or_fail("INFRA:create")?;
        let mut w = writer(&index, WriterCfg::default()).or_fail("INFRA:writer")?;
        w.set_merge_policy(Box::new(NoMergePolicy));
        let mut uids: Vec<u64> = vec![];
        let mut next = 0u64;
        for s in &c.segments {
            let first = next;
            for _ in 0..s.repeat.max(1) {
                for d in &s.docs {
                    w.add_document(to_tantivy(next, d, &f)).or_fail("add_failed")?;
                    uids.push(next);
                    next += 1;
                }
            }
            if s.kill_all {
                for u in first..next {
                    w.delete_term(Term::from_field_u64(f.uid, u));
                }
            }
            for raw in &s.deletes {
                if !uids.is_empty() {
                    w.delete_term(Term::from_field_u64(f.uid, uids[idx(*raw, uids.len())]));
                }
            }
            w.commit().or_fail("commit_failed")?;
        }
        // dump before
        let reader: tantivy::IndexReader = index.reader_builder().reload_policy(ReloadPolicy::Manual).try_into().or_fail("reader_open_failed")?;
        let before = reader.searcher();
        let mut dumps: Vec<(SegmentId, u64, SegDump)> = vec![];
        for seg in before.segment_readers() {
            let d = dump_segment(seg, &schema, "uid")?;
            let min_uid = seg.fast_fields().u64("uid").or_fail("uid_col")?.min_value();
            dumps.push((seg.segment_id(), min_uid, d));
        }
        dumps.sort_by_key(|x| x.1);
        if dumps.is_empty() {
            cx.label("no_segments");
            return Ok(());
        }
        let mut chosen: Vec<usize> = (0..dumps.len()).filter(|i| (c.pick >> (i % 16)) & 1 == 1).collect();
        if c.prefer_dead {
            let dead: Vec<usize> = (0..dumps.len()).filter(|i| dumps[*i].2.docs.is_empty()).collect();
            if !dead.is_empty() {
                chosen = dead;
            }
        }
        if chosen.is_empty() {
            chosen.push(idx(c.pick, dumps.len()));
        }
        let r = (c.rot as usize) % chosen.len();
        chosen.rotate_left(r);
        if c.rev {
            chosen.reverse();
        }
        let ids: Vec<SegmentId> = chosen.iter().map(|i| dumps[*i].0).collect();
        let merged_meta = w.merge(&ids).wait().or_fail("merge_failed")?;
        cx.count("programs", 1);
        reader.reload().or_fail("reload_failed")?;
        let after = reader.searcher();
        let total_alive: usize = chosen.iter().map(|i| dumps[*i].2.docs.len()).sum();
        // untouched segments keep their content
        let mut merged_dump: Option<SegDump> = None;
        let mut seen_unchosen = 0usize;
        for seg in after.segment_readers() {
            if let Some((pos, (_, _, old))) = dumps.iter().enumerate().find(|(_, d)| d.0 == seg.segment_id()) {
                ensure!(!chosen.contains(&pos), "merged_source_still_searchable", "segment {:?} was merged but is still searchable", seg.segment_id());
                let now = dump_segment(seg, &schema, "uid")?;
                ensure!(now.docs == old.docs, "untouched_segment_changed", "segment {:?}", seg.segment_id());
                seen_unchosen += 1;
            } else {
                ensure!(merged_dump.is_none(), "two_new_segments", "");
                if let Some(m) = &merged_meta {
                    ensure!(m.id() == seg.segment_id(), "merged_segment_id_differs", "{:?} vs {:?}", m.id(), seg.segment_id());
                }
                merged_dump = Some(dump_segment(seg, &schema, "uid")?);
            }
        }
        ensure!(seen_unchosen == dumps.len() - chosen.len(), "untouched_segment_lost", "{} of {} untouched segments remain", seen_unchosen, dumps.len() - chosen.len());
        cx.count("disagreements_checked", 1);
        if total_alive == 0 {
            ensure!(merged_meta.is_none() && merged_dump.is_none(), "dead_sources_produced_segment", "{merged_meta:?}");
            cx.label("all_dead_sources");
        } else {
            let Some(m) = merged_dump else { fail!("merged_segment_missing", "merge returned {merged_meta:?} but no new segment is searchable ({total_alive} live docs expected)") };
            ensure!(m.num_deleted == 0, "merged_segment_has_deletes", "{}", m.num_deleted);
            ensure!(m.docs.len() == total_alive && m.max_doc as usize == total_alive, "merged_doc_count", "merged has {} live docs / max_doc {}, sources have {total_alive} live", m.docs.len(), m.max_doc);
            match c.sorted {
                None => {
                    // each source contiguous and in order, any order of sources
                    let mut rest: &[DocDump] = &m.docs;
                    let mut unused: Vec<usize> = chosen.iter().cloned().filter(|i| !dumps[*i].2.docs.is_empty()).collect();
                    while !rest.is_empty() {
                        let found = unused.iter().position(|i| {
                            let src = &dumps[*i].2.docs;
                            rest.len() >= src.len() && &rest[..src.len()] == src.as_slice()
                        });
                        match found {
                            Some(p) => {
                                let i = unused.remove(p);
                                rest = &rest[dumps[i].2.docs.len()..];
                            }
                            None => {
                                let at = m.docs.len() - rest.len();
                                let got = &rest[0];
                                // explain: is the uid known, and what differs?
                                let orig = chosen.iter().flat_map(|i| dumps[*i].2.docs.iter()).find(|d| d.uid == got.uid);
                                let why = match orig {
                                    None => "uid not among the sources' live documents".to_string(),
                                    Some(o) if o == got => "document intact but out of source order".to_string(),
                                    Some(o) => diff_doc(o, got),
                                };
                                fail!("merged_content_differs", "merged doc #{at} (uid {}): {why}", got.uid);
                            }
                        }
                    }
                    ensure!(unused.is_empty(), "merged_content_differs", "sources {unused:?} missing from the merged segment");
                }
                Some(asc) => {
                    for wdw in m.docs.windows(2) {
                        let (a, b) = (sort_key_of(&wdw[0]), sort_key_of(&wdw[1]));
                        ensure!(if asc { a <= b } else { a >= b }, "merged_segment_not_sorted", "keys {a:?} then {b:?} (asc={asc}; None = no value: first when ascending, last when descending)");
                    }
                    let mut exp: BTreeMap<u64, &DocDump> = BTreeMap::new();
                    for i in &chosen {
                        for d in &dumps[*i].2.docs {
                            exp.insert(d.uid, d);
                        }
                    }
                    for d in &m.docs {
                        match exp.remove(&d.uid) {
                            None => fail!("merged_content_differs", "uid {} not among the sources' live documents (or twice)", d.uid),
                            Some(o) => ensure!(o == d, "merged_content_differs", "uid {}: {}", d.uid, diff_doc(o, d)),
                        }
                    }
                    ensure!(exp.is_empty(), "merged_content_differs", "uids {:?} missing", exp.keys().collect::<Vec<_>>());
                }
            }
            // doc_freq of every dictionary term == number of live docs containing it, > 0
            let mut counts: BTreeMap<(String, Vec<u8>), u32> = BTreeMap::new();
            for d in &m.docs {
                for (field, term, _, _) in &d.terms {
                    *counts.entry((field.clone(), term.clone())).or_default() += 1;
                }
            }
            for (field, term, df) in &m.doc_freqs {
                let n = counts.get(&(field.clone(), term.clone())).copied().unwrap_or(0);
                ensure!(n > 0, "dead_term_survived_merge", "field {field} term {term:?} has doc_freq {df} but no live document");
                ensure!(*df == n, "merged_doc_freq", "field {field} term {term:?}: doc_freq {df}, {n} live documents contain it");
            }
            let max_df = m.doc_freqs.iter().map(|x| x.2).max().unwrap_or(0);
            cx.label_if(max_df > 128, "posting_list>128");
        }
        let with_deletes = chosen.iter().any(|i| dumps[*i].2.num_deleted > 0);
        let stackable = c.tiny_blocks && chosen.iter().any(|i| dumps[*i].2.num_deleted == 0 && dumps[*i].2.docs.len() >= 12);
        cx.label_if(with_deletes, "source_with_deletes");
        cx.label_if(chosen.len() >= 3, "sources>=3");
        cx.label_if(chosen.len() == 1, "single_source");
        cx.label_if(stackable, "store_blocks>=6_no_deletes");
        cx.label_if(c.sorted.is_some(), "sorted");
        if with_deletes || chosen.len() >= 3 || stackable {
            cx.nontrivial(fp(c));
        }
        cx.sample(|| json!({"sub":"translate","sorted":c.sorted,"tiny_blocks":c.tiny_blocks,"segments":c.segments.iter().map(|s| json!({"docs":s.docs.len()*s.repeat.max(1) as usize,"deletes":s.deletes.len()})).collect::<Vec<_>>(),"chosen":chosen, "first_doc": c.segments.iter().flat_map(|s| s.docs.first()).next()}));
        Ok(())
    }
}

fn diff_doc(a: &DocDump, b: &DocDump) -> String {
    if a.stored != b.stored {
        return format!("stored fields differ: {} vs {}", a.stored, b.stored);
    }
    if a.fast != b.fast {
        return format!("fast values differ: {:?} vs {:?}", a.fast, b.fast);
    }
    if a.norms != b.norms {
        return format!("field norms differ: {:?} vs {:?}", a.norms, b.norms);
    }
    for (x, y) in a.terms.iter().zip(b.terms.iter()) {
        if x != y {
            return format!("postings differ: {x:?} vs {y:?}");
        }
    }
    format!("postings differ in number: {} vs {}", a.terms.len(), b.terms.len())
}

// ------------------------------------------------------------------------------------------------
#[derive(Clone, Debug, Serialize, Deserialize)]
pub struct SchedCase {
    pub cfg: HistCfg,
    /// builds the segments (commits included)
    pub prefix: Vec<Op>,
    /// which storage operation of the merge thread to hold at: 0 create, 1 append, 2 terminate
    pub gate_kind: u8,
    pub gate_nth: u8,
    /// executed while the merge thread is held
    pub during: Vec<Op>,
    pub suffix: Vec<Op>,
    /// the n-th read of a source doc store by the merge thread fails (once): the merge may fail, but a merge that
    /// reports success must be complete
    #[serde(default)]
    pub read_fault: Option<u8>,
}
pub struct Sched;
impl Sub for Sched {
    type Case = SchedCase;
    fn name(&self) -> &'static str {
        "sched"
    }
    fn cases(&self, tier: Tier) -> u32 {
        tier.pick(900, 12000)
    }
    fn shards(&self, _t: Tier) -> usize {
        12
    }
    fn max_shrink_iters(&self) -> u32 {
        250
    }
    fn strategy(&self, _tier: Tier) -> BoxedStrategy<SchedCase> {
        static DIRS: [DirKind; 1] = [DirKind::Sim];
        let cfg = cfg_strategy(&DIRS).prop_map(|mut c| {
            c.threads = c.threads.min(2);
            c.policy = Policy::NoMerge;
            c
        });
        let prefix_op = prop_oneof![8 => add_strategy().prop_map(Op::Add), 1 => any::<u16>().prop_map(Op::DelUid), 3 => Just(Op::Commit)];
        let during_op = prop_oneof![
            3 => any::<u16>().prop_map(Op::DelUid),
            2 => (0..NUM_GROUPS).prop_map(Op::DelGroup),
            2 => add_strategy().prop_map(Op::Add),
            5 => Just(Op::Commit),
            1 => Just(Op::Rollback),
            1 => Just(Op::PrepareAbort),
            1 => Just(Op::DeleteAll),
            1 => Just(Op::Gc),
            1 => any::<u16>().prop_map(Op::Merge),
            // the writer is dropped while its merge is held; a new writer (same Index) continues
            1 => Just(Op::Reopen),
        ];
        (cfg, prop::collection::vec(prefix_op, 4..30), 0u8..3, 0u8..10, prop::collection::vec(during_op, 1..8), prop::collection::vec(op_strategy(true), 0..10), prop::option::weighted(0.25, 0u8..12))
            .prop_map(|(cfg, prefix, gate_kind, gate_nth, during, suffix, read_fault)| SchedCase { cfg, prefix, gate_kind, gate_nth, during, suffix, read_fault })
            .boxed()
    }
    fn mandatory_labels(&self, _t: Tier) -> Vec<&'static str> {
        vec!["gate_reached", "commit_while_merge_held", "delete_committed_while_merge_held", "rollback_while_merge_held", "merge_result_ok", "delete_all_while_merge_held", "read_fault_fired_in_merge"]
    }
    fn run(&self, c: &SchedCase, cx: &Ctx) -> CaseResult {
        let mut env = Env::new(c.cfg.clone())?;
        env.check_quiescence = false;
        env.skip_dirty_delete_all = true; // known C02 finding, not the subject here
        let DirHandle::Sim(sd) = &env.dir else { return Err(Failure::new("INFRA:not_sim", "")) };
        let sd = sd.clone();
        sd.set_logging(false, false);
        for op in &c.prefix {
            env.apply(op, cx)?;
        }
        env.apply(&Op::Commit, cx)?;
        let ids = env.index.searchable_segment_ids().or_fail("segment_ids_failed")?;
        if ids.len() < 2 {
            cx.label("fewer_than_2_segments");
            return Ok(());
        }
        let kind = match c.gate_kind {
            0 => K::Create,
            1 => K::Append,
            _ => K::Terminate,
        };
        let gate = sd.add_gate(GateSpec { thread: "merge_thread".into(), kind: Some(kind), path_suffix: String::new(), nth: c.gate_nth as usize, max_hold: Duration::from_millis(400) });
        if let Some(nth) = c.read_fault {
            sd.set_faults(vec![crate::simdir::FaultRule { kinds: vec![K::Read], thread: "merge_thread".into(), path_suffix: ".store".into(), nth: nth as usize, permanent: false, locks: false }]);
            cx.label("read_fault_armed_on_source_store");
        }
        let fut = env.writer.as_mut().unwrap().merge(&ids);
        let reached = sd.wait_reached(gate, Duration::from_millis(300));
        let commits_before = env.commits;
        let deletes_before = env.stats.same_txn_delete_hits;
        let mut committed_delete = false;
        let mut pending_delete = false;
        for op in &c.during {
            if matches!(op, Op::DelUid(_) | Op::DelGroup(_)) {
                pending_delete = true;
            }
            let before = env.commits;
            env.apply(op, cx)?;
            if env.commits > before && pending_delete {
                committed_delete = true;
            }
            if matches!(op, Op::Rollback | Op::PrepareAbort) {
                pending_delete = false;
            }
        }
        let _ = deletes_before;
        sd.release(gate);
        // NB: the returned SegmentMeta pins the merged segment's files in the inventory: keep only the verdict
        let merge_res: Result<(), ()> = fut.wait().map(|_| ()).map_err(|_| ());
        if c.read_fault.is_some() {
            cx.label_if(sd.faults_fired() > 0, "read_fault_fired_in_merge");
            cx.label_if(sd.faults_fired() > 0 && merge_res.is_err(), "merge_failed_on_read_fault");
            sd.clear_faults();
        }
        // whatever happened to the merge: the searchable content is the committed model
        env.verify("after_merge_released")?;
        for op in &c.suffix {
            env.apply(op, cx)?;
        }
        env.check_quiescence = true;
        env.finish(cx)?;
        cx.count("programs", 1);
        cx.count("disagreements_checked", (env.stats.commits + 1) as u64);
        cx.label_if(reached, "gate_reached");
        cx.label_if(reached && env.commits > commits_before, "commit_while_merge_held");
        cx.label_if(reached && committed_delete, "delete_committed_while_merge_held");
        cx.label_if(reached && c.during.iter().any(|o| matches!(o, Op::Rollback | Op::PrepareAbort)), "rollback_while_merge_held");
        cx.label_if(reached && c.during.iter().any(|o| matches!(o, Op::DeleteAll)) , "delete_all_while_merge_held");
        cx.label_if(merge_res.is_ok(), "merge_result_ok");
        cx.label_if(merge_res.is_err(), "merge_result_err");
        if reached && env.commits > commits_before {
            cx.nontrivial(fp(c));
        }
        cx.sample(|| json!({"sub":"sched","cfg":c.cfg,"prefix":c.prefix.len(),"gate":[c.gate_kind,c.gate_nth],"during":c.during,"suffix":c.suffix.len(),"gate_reached":reached}));
        Ok(())
    }
}

// ------------------------------------------------------------------------------------------------
/// Policy-driven merges while the history proceeds: C02's interpreter and sequential model, with configurations in which
/// the merge policy fires all the time on committed *and* uncommitted segments (tiny layers, 2-3 segments per merge,
/// a segment cut every 1-2 documents, 1-4 indexing threads) and histories rich in deletes between merges, rollbacks,
/// aborts and writer restarts.  A policy merge must never change what the model says: not at the next commit (deletes
/// pending in the source entries or held in memory must end up in the merged segment) and not before it (a merge of
/// committed segments published by end_merge must not contain uncommitted deletes: rollback / reopen must bring back
/// exactly the last commit).
pub struct PolicyHist;
impl Sub for PolicyHist {
    type Case = super::c02::SeqCase;
    fn name(&self) -> &'static str {
        "policy_hist"
    }
    fn cases(&self, tier: Tier) -> u32 {
        tier.pick(900, 12000)
    }
    fn max_shrink_iters(&self) -> u32 {
        800
    }
    fn strategy(&self, _tier: Tier) -> BoxedStrategy<super::c02::SeqCase> {
        use crate::hist::*;
        static DIRS: [DirKind; 3] = [DirKind::Ram, DirKind::Ram, DirKind::Sim];
        let op = prop_oneof![
            20 => add_strategy().prop_map(Op::Add),
            6 => any::<u16>().prop_map(Op::DelUid),
            3 => (0..NUM_GROUPS).prop_map(Op::DelGroup),
            2 => (-20i16..20, 0i16..8).prop_map(|(lo, w)| Op::DelRange(lo, lo + w)),
            8 => Just(Op::Commit),
            2 => Just(Op::PrepareCommit),
            2 => Just(Op::PrepareAbort),
            3 => Just(Op::Rollback),
            1 => any::<u16>().prop_map(Op::Merge),
            2 => Just(Op::WaitMerges),
            2 => Just(Op::Reopen),
            1 => Just(Op::Gc),
        ];
        (cfg_strategy(&DIRS), 2u8..4, 1u16..3, prop::collection::vec(op, 4..60))
            .prop_map(|(mut cfg, n, flush, ops)| {
                cfg.policy = Policy::LogSmall(n);
                cfg.flush_every = flush;
                cfg.threads = cfg.threads.min(4);
                super::c02::SeqCase { cfg, ops }
            })
            .boxed()
    }
    fn mandatory_labels(&self, _t: Tier) -> Vec<&'static str> {
        vec!["same_txn_delete_hit", "rollback_with_work", "abort_with_work", "threads>=2", "segments>=3", "reopen", "commits>=3"]
    }
    fn run(&self, c: &super::c02::SeqCase, cx: &Ctx) -> CaseResult {
        let mut env = crate::hist::Env::new(c.cfg.clone())?;
        env.check_quiescence = false;
        for op in &c.ops {
            env.apply(op, cx)?;
        }
        env.finish(cx)?;
        let st = &env.stats;
        cx.label_if(st.same_txn_delete_hits > 0, "same_txn_delete_hit");
        cx.label_if(st.rollbacks_with_work > 0, "rollback_with_work");
        cx.label_if(st.aborts_with_work > 0, "abort_with_work");
        cx.label_if(c.cfg.threads >= 2, "threads>=2");
        cx.label_if(st.max_segments >= 3, "segments>=3");
        cx.label_if(st.reopen > 0, "reopen");
        cx.label_if(st.commits >= 3, "commits>=3");
        cx.count("programs", 1);
        cx.count("commits_verified", st.commits as u64);
        if st.commits >= 2 && (st.same_txn_delete_hits > 0 || st.rollbacks_with_work > 0 || st.aborts_with_work > 0) {
            cx.nontrivial(fp(c));
        }
        cx.sample(|| json!({"sub": "policy_hist", "cfg": c.cfg, "ops": c.ops.len()}));
        Ok(())
    }
}
