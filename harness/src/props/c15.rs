//! C15 — term dictionaries behave as ordered maps from byte strings.
//!
//! Model = sorted `Vec<(key, value)>` / `BTreeMap`.  Sub-checks:
//!   * `sstable`   tantivy_sstable::Dictionary<Void|MonotonicU64|Range|VecU32> with generated block lengths: every
//!                 lookup / ordinal / range / prefix / automaton operation against the model;
//!   * `order`     every builder (sstable writers, FST term dictionary builder) must reject a key sequence with one
//!                 generated order violation;
//!   * `termdict`  tantivy::termdict::{TermDictionaryBuilder, TermDictionary, TermMerger} with TermInfo values
//!                 (file c15_termdict.rs);
//!   * `merge`     tantivy_sstable merge = sorted union with merged values (file c15_merge.rs);
//!   * `columnar`  tantivy_columnar dictionaries (bytes columns), compute_merged_term_ord_mapping and merge_columnar
//!                 (file c15_merge.rs).
//! `fuzz_one` decodes an arbitrary byte string into an `sstable` or `order` case and runs the same oracles.
use std::cell::{Cell, RefCell};
use std::collections::BTreeSet;
use std::fmt::Debug;
use std::ops::Bound;
use std::panic::{catch_unwind, AssertUnwindSafe};
use std::sync::OnceLock;

use levenshtein_automata::{Distance, LevenshteinAutomatonBuilder, DFA, SINK_STATE};
use proptest::prelude::*;
use serde::{Deserialize, Serialize};
use serde_json::json;
use tantivy_common::OwnedBytes;
use tantivy_fst::automaton::AlwaysMatch;
use tantivy_fst::Automaton;
use tantivy_sstable::{Dictionary, MonotonicU64SSTable, RangeSSTable, SSTable, Streamer, TermOrdHit, VecU32ValueSSTable, VoidSSTable};

use crate::engine::*;
use crate::{ensure, fail};

pub const SIG_INVERTED_RANGE: &str = "inverted_range_panics:sstable";
pub const SIG_LIMIT_OVERFLOW: &str = "range_limit_overflow:sstable";
pub const SIG_DUP_EMPTY: &str = "duplicate_empty_key_accepted:sstable";
pub const SIG_AUT_TERM_ORD: &str = "automaton_stream_term_ord_wrong:sstable";

pub fn def() -> PropDef {
    PropDef {
        id: "C15",
        level: "exploration",
        rule: "sstable: generated key sets (0..700 keys built from pieces `keep n bytes of the previous key + run of one byte + tail`: empty key, runs to 40 KB, shared prefixes around the 15/16 nibble boundary, 0x00/0xFF) x value type (Void, MonotonicU64, Range, VecU32) x block length (0..4000; 0 = one key per block, so the 128-entry block-address store and its multiples are crossed) x 8..40 operations (get/term_ord/term_ord_or_next on present, absent, neighbouring keys; ord_to_term/term_info_from_ord incl. out of range; term_bounds_to_ord; sorted_ords_to_term_cb; range ge/gt/le/lt/unbounded incl. empty and inverted with limits 0..u64::MAX; prefix_range; search with prefix/exact/Levenshtein 0..2 +- transpositions +- prefix/regex/contains/length-mod automata under bounds) compared with a sorted-vector model; automaton streams are compared with the same automaton run over every model key. Non-trivial = dictionary has >= 2 blocks and one operation whose answer spans a block boundary or whose argument falls between two blocks; distinct by case fingerprint. order: a strictly increasing sequence with one inserted violation (duplicate, earlier key, proper prefix of the predecessor, decremented last byte, repeated empty key; at any position incl. the first key of a block) fed to each sstable writer and to the FST term dictionary builder: must panic or return Err. termdict: FST TermDictionary with chained TermInfo values crossing the 256-entry term-info blocks, same operations, plus TermMerger over 2..5 overlapping dictionaries (union, per-segment old ordinals, term infos). merge: merge_sstable over 2..5 overlapping inputs with Void/KeepFirst-u64/concatenating VecU32 mergers and generated input/output block lengths. columnar: bytes columns written through ColumnarWriter, their dictionaries and row ordinals, compute_merged_term_ord_mapping and merge_columnar (stacked) against the model.",
        assumptions: vec![
            "automaton streams are judged against the same automaton object evaluated byte by byte on every model key (accept/is_match only); the soundness of the automaton's own can_match/will_always_match is assumed for tantivy_fst::Regex and levenshtein_automata DFAs and holds by construction for the harness automata",
            "values obey the documented preconditions of their codec: MonotonicU64 values non-decreasing, Range values contiguous, TermInfo byte ranges chained",
            "term_ord_or_next for a key greater than every key: any ordinal >= num_terms is accepted as `no successor` (documented TODO in the code)",
            "limit(n): the stream must be a prefix of the unlimited answer and contain at least min(n, answer length) entries (documented: may return marginally more)",
            "the term dictionary under test is the FST one (default features); the sstable term dictionary (feature quickwit) shares tantivy_sstable::Dictionary, which is exercised directly",
            "columnar::DictionaryBuilder is crate-private; it is reached through ColumnarWriter::record_bytes only",
        ],
        subs: vec![
            Box::new(Sst),
            Box::new(Order),
            Box::new(super::c15_termdict::TermDictSub),
            Box::new(super::c15_merge::MergeSub),
            Box::new(super::c15_merge::ColumnarSub),
            Box::new(FuzzBytes),
        ],
    }
}

// ================================================================================================
// key sets
// ================================================================================================

/// One generated key = first `keep` bytes of the previously generated key, then `run` copies of `fill`, then `tail`.
#[derive(Clone, Debug, Serialize, Deserialize)]
pub struct KeyPiece {
    pub keep: u16,
    pub fill: u8,
    pub run: u32,
    pub tail: Vec<u8>,
}
#[derive(Clone, Debug, Serialize, Deserialize)]
pub struct KeySet {
    pub empty_key: bool,
    pub pieces: Vec<KeyPiece>,
}
pub const KEY_BYTES_BUDGET: usize = 1_500_000;
impl KeySet {
    /// sorted, distinct keys
    pub fn build(&self) -> Vec<Vec<u8>> {
        let mut set: BTreeSet<Vec<u8>> = BTreeSet::new();
        if self.empty_key {
            set.insert(vec![]);
        }
        let mut prev: Vec<u8> = vec![];
        let mut total = 0usize;
        for p in &self.pieces {
            let keep = (p.keep as usize).min(prev.len());
            let mut k = prev[..keep].to_vec();
            let run = (p.run as usize).min(41_000);
            k.extend(std::iter::repeat(p.fill).take(run));
            k.extend_from_slice(&p.tail);
            total += k.len();
            if total > KEY_BYTES_BUDGET {
                break;
            }
            prev = k.clone();
            set.insert(k);
        }
        set.into_iter().collect()
    }
}

pub fn byte_strategy() -> BoxedStrategy<u8> {
    prop_oneof![
        6 => b'a'..=b'e',
        1 => Just(0u8),
        1 => Just(1u8),
        1 => Just(0xFEu8),
        1 => Just(0xFFu8),
        1 => any::<u8>(),
    ]
    .boxed()
}
pub fn piece_strategy(huge: bool) -> BoxedStrategy<KeyPiece> {
    let keep = prop_oneof![
        3 => Just(0u16),
        3 => 0u16..6,
        2 => Just(u16::MAX),
        2 => 13u16..19,
        1 => 0u16..300,
    ];
    let fill = prop_oneof![2 => Just(0u8), 2 => Just(0xFFu8), 3 => b'a'..=b'c', 1 => any::<u8>()];
    let run = if huge {
        prop_oneof![
            500 => Just(0u32),
            300 => 1u32..4,
            200 => 12u32..20,
            60 => 100u32..600,
            8 => 3000u32..5000,
            3 => 20_000u32..40_960,
        ]
        .boxed()
    } else {
        prop_oneof![
            500 => Just(0u32),
            300 => 1u32..4,
            200 => 12u32..20,
            30 => 100u32..300,
        ]
        .boxed()
    };
    (keep, fill, run, prop::collection::vec(byte_strategy(), 0..4)).prop_map(|(keep, fill, run, tail)| KeyPiece { keep, fill, run, tail }).boxed()
}
/// `sizes` = weighted key-count classes
pub fn keyset_strategy(max_keys: usize, huge: bool) -> BoxedStrategy<KeySet> {
    let n = prop_oneof![
        1 => Just(0usize),
        1 => Just(1usize),
        7 => 2usize..40,
        3 => 40usize..200.min(max_keys.max(41)),
        2 => 200.min(max_keys)..max_keys.max(201),
    ];
    (prop_oneof![3 => Just(false), 1 => Just(true)], n)
        .prop_flat_map(move |(empty_key, n)| prop::collection::vec(piece_strategy(huge), n..=n).prop_map(move |pieces| KeySet { empty_key, pieces }))
        .boxed()
}

/// A probe key described relative to the (sorted) key set, so that shrinking keeps its relation to the set.
#[derive(Clone, Debug, Serialize, Deserialize)]
pub enum KeyRef {
    Lit(Vec<u8>),
    /// an existing key
    At(u16),
    /// an existing key plus one byte
    Append(u16, u8),
    /// an existing key minus its last n+1 bytes
    Pop(u16, u8),
    /// an existing key with its last byte incremented (0xFF: a zero byte is appended instead)
    Inc(u16),
    /// an existing key with its last byte decremented (0x00: the byte is removed)
    Dec(u16),
    /// an existing key cut at a fraction of its length
    Cut(u16, u16),
}
impl KeyRef {
    pub fn resolve(&self, keys: &[&[u8]]) -> Vec<u8> {
        let at = |i: &u16| -> Vec<u8> {
            if keys.is_empty() {
                vec![]
            } else {
                keys[idx(*i, keys.len())].to_vec()
            }
        };
        match self {
            KeyRef::Lit(v) => v.clone(),
            KeyRef::At(i) => at(i),
            KeyRef::Append(i, b) => {
                let mut k = at(i);
                k.push(*b);
                k
            }
            KeyRef::Pop(i, n) => {
                let mut k = at(i);
                let l = k.len().saturating_sub(*n as usize + 1);
                k.truncate(l);
                k
            }
            KeyRef::Inc(i) => {
                let mut k = at(i);
                match k.last_mut() {
                    Some(b) if *b < 0xFF => *b += 1,
                    _ => k.push(0),
                }
                k
            }
            KeyRef::Dec(i) => {
                let mut k = at(i);
                match k.last_mut() {
                    Some(b) if *b > 0 => *b -= 1,
                    Some(_) => {
                        k.pop();
                    }
                    None => {}
                }
                k
            }
            KeyRef::Cut(i, f) => {
                let mut k = at(i);
                let l = idx(*f, k.len() + 1);
                k.truncate(l);
                k
            }
        }
    }
}
pub fn keyref_strategy() -> BoxedStrategy<KeyRef> {
    prop_oneof![
        2 => prop::collection::vec(byte_strategy(), 0..5).prop_map(KeyRef::Lit),
        5 => any::<u16>().prop_map(KeyRef::At),
        // the extremes of the key set (first / last block) get extra weight
        1 => Just(KeyRef::At(0)),
        1 => Just(KeyRef::At(u16::MAX)),
        1 => Just(KeyRef::Inc(u16::MAX)),
        2 => (any::<u16>(), prop_oneof![Just(0u8), Just(0xFFu8), any::<u8>()]).prop_map(|(i, b)| KeyRef::Append(i, b)),
        2 => (any::<u16>(), 0u8..3).prop_map(|(i, n)| KeyRef::Pop(i, n)),
        2 => any::<u16>().prop_map(KeyRef::Inc),
        2 => any::<u16>().prop_map(KeyRef::Dec),
        1 => (any::<u16>(), any::<u16>()).prop_map(|(i, f)| KeyRef::Cut(i, f)),
    ]
    .boxed()
}

#[derive(Clone, Debug, Serialize, Deserialize)]
pub enum BoundSpec {
    U,
    I(KeyRef),
    E(KeyRef),
}
impl BoundSpec {
    pub fn resolve(&self, keys: &[&[u8]]) -> Bound<Vec<u8>> {
        match self {
            BoundSpec::U => Bound::Unbounded,
            BoundSpec::I(k) => Bound::Included(k.resolve(keys)),
            BoundSpec::E(k) => Bound::Excluded(k.resolve(keys)),
        }
    }
}
pub fn bound_strategy() -> BoxedStrategy<BoundSpec> {
    prop_oneof![
        2 => Just(BoundSpec::U),
        3 => keyref_strategy().prop_map(BoundSpec::I),
        3 => keyref_strategy().prop_map(BoundSpec::E),
    ]
    .boxed()
}
pub fn above_lower(k: &[u8], lo: &Bound<Vec<u8>>) -> bool {
    match lo {
        Bound::Unbounded => true,
        Bound::Included(x) => k >= &x[..],
        Bound::Excluded(x) => k > &x[..],
    }
}
pub fn below_upper(k: &[u8], hi: &Bound<Vec<u8>>) -> bool {
    match hi {
        Bound::Unbounded => true,
        Bound::Included(x) => k <= &x[..],
        Bound::Excluded(x) => k < &x[..],
    }
}
/// true if no key at all can satisfy both bounds
pub fn bounds_inverted(lo: &Bound<Vec<u8>>, hi: &Bound<Vec<u8>>) -> bool {
    let (l, lx) = match lo {
        Bound::Unbounded => return false,
        Bound::Included(x) => (x, false),
        Bound::Excluded(x) => (x, true),
    };
    let (h, hx) = match hi {
        Bound::Unbounded => return false,
        Bound::Included(x) => (x, false),
        Bound::Excluded(x) => (x, true),
    };
    l > h || (l == h && (lx || hx))
}

#[derive(Clone, Debug, Serialize, Deserialize)]
pub enum OrdRef {
    In(u16),
    Len,
    LenPlus(u32),
    Max,
}
impl OrdRef {
    pub fn resolve(&self, n: usize) -> u64 {
        match self {
            OrdRef::In(i) => idx(*i, n) as u64,
            OrdRef::Len => n as u64,
            OrdRef::LenPlus(k) => n as u64 + 1 + *k as u64,
            OrdRef::Max => u64::MAX,
        }
    }
}
pub fn ordref_strategy() -> BoxedStrategy<OrdRef> {
    prop_oneof![
        12 => any::<u16>().prop_map(OrdRef::In),
        1 => Just(OrdRef::Len),
        1 => (0u32..1000).prop_map(OrdRef::LenPlus),
        1 => Just(OrdRef::Max),
    ]
    .boxed()
}

// ================================================================================================
// automata
// ================================================================================================

#[derive(Clone, Debug, Serialize, Deserialize)]
pub enum AutSpec {
    Always,
    Prefix(KeyRef),
    Exact(KeyRef),
    Lev { word: KeyRef, dist: u8, transpose: bool, prefix: bool },
    /// regular expression built from (an ASCII rendering of) a key: see `regex_source`
    Regex { word: KeyRef, form: u8 },
    Contains(u8),
    LenMod(u8, u8),
}
pub fn aut_strategy() -> BoxedStrategy<AutSpec> {
    prop_oneof![
        1 => Just(AutSpec::Always),
        4 => keyref_strategy().prop_map(AutSpec::Prefix),
        2 => keyref_strategy().prop_map(AutSpec::Exact),
        4 => (keyref_strategy(), 0u8..3, any::<bool>(), prop_oneof![3 => Just(false), 1 => Just(true)])
            .prop_map(|(word, dist, transpose, prefix)| AutSpec::Lev { word, dist, transpose, prefix }),
        5 => (keyref_strategy(), 0u8..10).prop_map(|(word, form)| AutSpec::Regex { word, form }),
        1 => byte_strategy().prop_map(AutSpec::Contains),
        1 => (1u8..5, 0u8..5).prop_map(|(m, r)| AutSpec::LenMod(m, r % m)),
    ]
    .boxed()
}
impl AutSpec {
    pub fn kind(&self) -> &'static str {
        match self {
            AutSpec::Always => "always",
            AutSpec::Prefix(_) => "prefix",
            AutSpec::Exact(_) => "exact",
            AutSpec::Lev { dist: 0, .. } => "lev0",
            AutSpec::Lev { dist: 1, transpose: false, .. } => "lev1",
            AutSpec::Lev { dist: 1, transpose: true, .. } => "lev1t",
            AutSpec::Lev { transpose: false, .. } => "lev2",
            AutSpec::Lev { transpose: true, .. } => "lev2t",
            AutSpec::Regex { .. } => "regex",
            AutSpec::Contains(_) => "contains",
            AutSpec::LenMod(..) => "lenmod",
        }
    }
}

pub struct PrefixAut(pub Vec<u8>);
impl Automaton for PrefixAut {
    type State = Option<usize>;
    fn start(&self) -> Option<usize> {
        Some(0)
    }
    fn is_match(&self, s: &Option<usize>) -> bool {
        *s == Some(self.0.len())
    }
    fn can_match(&self, s: &Option<usize>) -> bool {
        s.is_some()
    }
    fn will_always_match(&self, s: &Option<usize>) -> bool {
        *s == Some(self.0.len())
    }
    fn accept(&self, s: &Option<usize>, b: u8) -> Option<usize> {
        match *s {
            Some(n) if n == self.0.len() => Some(n),
            Some(n) if self.0[n] == b => Some(n + 1),
            _ => None,
        }
    }
}
pub struct ExactAut(pub Vec<u8>);
impl Automaton for ExactAut {
    type State = Option<usize>;
    fn start(&self) -> Option<usize> {
        Some(0)
    }
    fn is_match(&self, s: &Option<usize>) -> bool {
        *s == Some(self.0.len())
    }
    fn can_match(&self, s: &Option<usize>) -> bool {
        s.is_some()
    }
    fn accept(&self, s: &Option<usize>, b: u8) -> Option<usize> {
        s.filter(|p| self.0.get(*p) == Some(&b)).map(|p| p + 1)
    }
}
pub struct ContainsAut(pub u8);
impl Automaton for ContainsAut {
    type State = bool;
    fn start(&self) -> bool {
        false
    }
    fn is_match(&self, s: &bool) -> bool {
        *s
    }
    fn will_always_match(&self, s: &bool) -> bool {
        *s
    }
    fn accept(&self, s: &bool, b: u8) -> bool {
        *s || b == self.0
    }
}
pub struct LenModAut(pub u8, pub u8);
impl Automaton for LenModAut {
    type State = u8;
    fn start(&self) -> u8 {
        0
    }
    fn is_match(&self, s: &u8) -> bool {
        *s == self.1
    }
    fn accept(&self, s: &u8, _b: u8) -> u8 {
        (*s + 1) % self.0
    }
}
/// same wrapper as tantivy's (crate-private) `DfaWrapper`
pub struct LevAut(pub DFA);
impl Automaton for LevAut {
    type State = u32;
    fn start(&self) -> u32 {
        self.0.initial_state()
    }
    fn is_match(&self, s: &u32) -> bool {
        matches!(self.0.distance(*s), Distance::Exact(_))
    }
    fn can_match(&self, s: &u32) -> bool {
        *s != SINK_STATE
    }
    fn accept(&self, s: &u32, b: u8) -> u32 {
        self.0.transition(*s, b)
    }
}
fn lev_builder(dist: u8, transpose: bool) -> &'static LevenshteinAutomatonBuilder {
    static B: [[OnceLock<LevenshteinAutomatonBuilder>; 2]; 3] =
        [[OnceLock::new(), OnceLock::new()], [OnceLock::new(), OnceLock::new()], [OnceLock::new(), OnceLock::new()]];
    let d = (dist as usize).min(2);
    B[d][transpose as usize].get_or_init(|| LevenshteinAutomatonBuilder::new(d as u8, transpose))
}
/// ASCII rendering of at most `max` bytes of a key as a regex literal (bytes >= 0x80 become `.`)
fn regex_literal(bytes: &[u8], max: usize) -> String {
    let mut s = String::new();
    for b in bytes.iter().take(max) {
        match *b {
            b'a'..=b'z' | b'A'..=b'Z' | b'0'..=b'9' => s.push(*b as char),
            0x80..=0xFF => s.push('.'),
            b => s.push_str(&format!("\\x{:02x}", b)),
        }
    }
    s
}
pub fn regex_source(word: &[u8], form: u8) -> String {
    let head = regex_literal(word, 6);
    let tail = regex_literal(&word[word.len().saturating_sub(3)..], 3);
    match form {
        0 => format!("{head}.*"),
        1 => head,
        2 => format!(".*{tail}"),
        3 => format!("{head}[a-c]+"),
        4 => format!("({head}|b).*"),
        5 => ".*".to_string(),
        6 => format!("{head}.?.?"),
        7 => "[^a]*".to_string(),
        8 => format!("{}(a|b|c)*{tail}", regex_literal(word, 2)),
        _ => format!("[a-c]{{1,3}}{tail}?.*"),
    }
}

pub fn aut_matches<A: Automaton>(a: &A, key: &[u8]) -> bool {
    let mut s = a.start();
    for b in key {
        s = a.accept(&s, *b);
    }
    a.is_match(&s)
}

/// generic callback over the concrete automaton type
pub trait AutVisitor {
    type Out;
    fn visit<A: Automaton>(self, a: &A, kind: &'static str) -> Self::Out
    where A::State: Clone;
}
/// Builds the automaton described by `spec` and hands it to the visitor; `None` if the automaton could not be built
/// (regex rejected by tantivy_fst).
pub fn with_automaton<V: AutVisitor>(spec: &AutSpec, keys: &[&[u8]], v: V) -> Option<V::Out> {
    let kind = spec.kind();
    Some(match spec {
        AutSpec::Always => v.visit(&AlwaysMatch, kind),
        AutSpec::Prefix(k) => v.visit(&PrefixAut(k.resolve(keys)), kind),
        AutSpec::Exact(k) => v.visit(&ExactAut(k.resolve(keys)), kind),
        AutSpec::Lev { word, dist, transpose, prefix } => {
            let w = word.resolve(keys);
            let w = String::from_utf8_lossy(&w[..w.len().min(12)]).into_owned();
            let b = lev_builder(*dist, *transpose);
            let dfa = if *prefix { b.build_prefix_dfa(&w) } else { b.build_dfa(&w) };
            v.visit(&LevAut(dfa), kind)
        }
        AutSpec::Regex { word, form } => {
            let src = regex_source(&word.resolve(keys), *form);
            match tantivy_fst::Regex::new(&src) {
                Ok(re) => v.visit(&re, kind),
                Err(_) => return None,
            }
        }
        AutSpec::Contains(b) => v.visit(&ContainsAut(*b), kind),
        AutSpec::LenMod(m, r) => v.visit(&LenModAut((*m).max(1), *r), kind),
    })
}

pub fn panic_text(p: &Box<dyn std::any::Any + Send>) -> String {
    if let Some(s) = p.downcast_ref::<&str>() {
        s.to_string()
    } else if let Some(s) = p.downcast_ref::<String>() {
        s.clone()
    } else {
        "<non-string panic>".into()
    }
}
pub fn hex(k: &[u8]) -> String {
    let mut s = String::new();
    for b in k.iter().take(48) {
        s.push_str(&format!("{b:02x}"));
    }
    if k.len() > 48 {
        s.push_str(&format!("…({} bytes)", k.len()));
    }
    s
}
pub fn hexb(b: &Bound<Vec<u8>>) -> String {
    match b {
        Bound::Unbounded => "unbounded".into(),
        Bound::Included(k) => format!("incl({})", hex(k)),
        Bound::Excluded(k) => format!("excl({})", hex(k)),
    }
}

/// deterministic value stream (not an RNG of the run: a pure function of the case's `vseed`)
pub struct Lcg(pub u64);
impl Lcg {
    pub fn next(&mut self) -> u64 {
        self.0 = self.0.wrapping_mul(6364136223846793005).wrapping_add(1442695040888963407);
        let mut x = self.0;
        x ^= x >> 33;
        x = x.wrapping_mul(0xff51afd7ed558ccd);
        x ^ (x >> 33)
    }
    /// 0 | small | medium | large, never overflowing when summed 1000 times
    pub fn delta(&mut self) -> u64 {
        let r = self.next();
        match r & 7 {
            0 | 1 => 0,
            2 | 3 | 4 => (r >> 8) & 0x7f,
            5 | 6 => (r >> 8) & 0xffff,
            _ => (r >> 8) & 0xff_ffff_ffff,
        }
    }
}

// ================================================================================================
// sub-check `sstable`
// ================================================================================================

#[derive(Clone, Copy, Debug, Serialize, Deserialize, PartialEq)]
pub enum VType {
    Void,
    U64,
    Range,
    VecU32,
}
#[derive(Clone, Debug, Serialize, Deserialize)]
pub enum Op {
    /// get, term_ord, term_ord_or_next
    Point(KeyRef),
    /// ord_to_term, term_info_from_ord
    Ord(OrdRef),
    BoundsToOrd(BoundSpec, BoundSpec),
    SortedOrds(Vec<OrdRef>),
    Range { lo: BoundSpec, hi: BoundSpec, limit: Option<u64>, use_next: bool },
    Prefix(KeyRef),
    Search { aut: AutSpec, lo: BoundSpec, hi: BoundSpec, limit: Option<u64> },
}
#[derive(Clone, Debug, Serialize, Deserialize)]
pub struct SstCase {
    pub keys: KeySet,
    pub vtype: VType,
    pub vseed: u64,
    pub block_len: u16,
    pub ops: Vec<Op>,
}

pub fn limit_strategy() -> BoxedStrategy<Option<u64>> {
    prop_oneof![
        6 => Just(None),
        3 => (0u64..6).prop_map(Some),
        2 => (0u64..300).prop_map(Some),
        1 => prop_oneof![Just(u64::MAX), Just(u64::MAX - 1), Just(1u64 << 63), Just(u32::MAX as u64)].prop_map(Some),
    ]
    .boxed()
}
pub fn op_strategy() -> BoxedStrategy<Op> {
    prop_oneof![
        6 => keyref_strategy().prop_map(Op::Point),
        3 => ordref_strategy().prop_map(Op::Ord),
        3 => (bound_strategy(), bound_strategy()).prop_map(|(a, b)| Op::BoundsToOrd(a, b)),
        2 => prop::collection::vec(ordref_strategy(), 0..12).prop_map(Op::SortedOrds),
        7 => (bound_strategy(), bound_strategy(), limit_strategy(), any::<bool>()).prop_map(|(lo, hi, limit, use_next)| Op::Range { lo, hi, limit, use_next }),
        3 => keyref_strategy().prop_map(Op::Prefix),
        8 => (aut_strategy(), bound_strategy(), bound_strategy(), limit_strategy()).prop_map(|(aut, lo, hi, limit)| Op::Search { aut, lo, hi, limit }),
    ]
    .boxed()
}
pub fn block_len_strategy() -> BoxedStrategy<u16> {
    prop_oneof![
        3 => Just(0u16),
        3 => 1u16..20,
        3 => 20u16..200,
        2 => 200u16..2100,
        2 => Just(4000u16),
    ]
    .boxed()
}

pub fn gen_u64(n: usize, seed: u64) -> Vec<u64> {
    let mut l = Lcg(seed);
    let mut v = l.delta();
    (0..n)
        .map(|_| {
            v += l.delta();
            v
        })
        .collect()
}
pub fn gen_ranges(n: usize, seed: u64) -> Vec<std::ops::Range<u64>> {
    let mut l = Lcg(seed ^ 0x55);
    let mut start = l.delta();
    (0..n)
        .map(|_| {
            let end = start + l.delta();
            let r = start..end;
            start = end;
            r
        })
        .collect()
}
pub fn gen_vecs(n: usize, seed: u64) -> Vec<Vec<u32>> {
    let mut l = Lcg(seed ^ 0xaa);
    (0..n)
        .map(|_| {
            let len = (l.next() % 5) as usize;
            (0..len).map(|_| l.next() as u32).collect()
        })
        .collect()
}

pub fn build_sstable<S: SSTable>(entries: &[(Vec<u8>, S::Value)], block_len: usize) -> Result<Vec<u8>, Failure> {
    let mut w = Dictionary::<S>::builder(Vec::new()).or_fail("sstable_builder_error")?;
    w.set_block_len(block_len);
    for (k, v) in entries {
        w.insert(k, v).or_fail("sstable_insert_error")?;
    }
    w.finish().or_fail("sstable_finish_error")
}
/// first ordinal of every block (through the public block iterator of the index)
pub fn block_first_ordinals<S: SSTable>(d: &Dictionary<S>) -> Vec<u64> {
    d.sstable_index.get_block_for_automaton(&AlwaysMatch).map(|(_, a)| a.first_ordinal).collect()
}

pub fn drain<S: SSTable, A: Automaton>(st: &mut Streamer<'_, S, A>, cap: usize, use_next: bool) -> Vec<(Vec<u8>, S::Value, u64)>
where A::State: Clone {
    let mut out = vec![];
    loop {
        if use_next {
            let Some(item) = st.next().map(|(k, v)| (k.to_vec(), v.clone())) else { break };
            let ord = st.term_ord();
            out.push((item.0, item.1, ord));
        } else {
            if !st.advance() {
                break;
            }
            out.push((st.key().to_vec(), st.value().clone(), st.term_ord()));
        }
        if out.len() > cap {
            break;
        }
    }
    out
}

struct Env<'a, S: SSTable> {
    dict: &'a Dictionary<S>,
    sorted: &'a [(Vec<u8>, S::Value)],
    keys: Vec<&'a [u8]>,
    /// first ordinal of every block
    blocks: Vec<u64>,
    vname: &'static str,
    cx: &'a Ctx<'a>,
    spans: Cell<u32>,
}
impl<'a, S: SSTable> Env<'a, S>
where S::Value: PartialEq + Debug
{
    fn n(&self) -> usize {
        self.sorted.len()
    }
    fn block_of(&self, ord: usize) -> usize {
        self.blocks.partition_point(|f| *f <= ord as u64).saturating_sub(1)
    }
    fn expected(&self, lo: &Bound<Vec<u8>>, hi: &Bound<Vec<u8>>) -> Vec<usize> {
        (0..self.n()).filter(|i| above_lower(&self.sorted[*i].0, lo) && below_upper(&self.sorted[*i].0, hi)).collect()
    }
    fn note_span(&self, exp: &[usize]) {
        if let (Some(a), Some(b)) = (exp.first(), exp.last()) {
            if self.blocks.len() >= 2 && self.block_of(*a) != self.block_of(*b) {
                self.spans.set(self.spans.get() + 1);
            }
        }
    }
    /// compares a drained stream with the expected ordinals; `limit` = the stream may stop early (see assumptions)
    fn compare(&self, what: &str, sig: &str, got: &[(Vec<u8>, S::Value, u64)], exp: &[usize], limit: Option<u64>, check_ord: bool) -> CaseResult {
        self.compare_tagged(what, sig, self.vname, got, exp, limit, check_ord)
    }
    /// signatures are `<sig>[_short|_value]:<tag>`
    fn compare_tagged(&self, what: &str, sig: &str, tag: &str, got: &[(Vec<u8>, S::Value, u64)], exp: &[usize], limit: Option<u64>, check_ord: bool) -> CaseResult {
        let need = match limit {
            None => exp.len(),
            Some(l) => (l.min(exp.len() as u64)) as usize,
        };
        ensure!(
            got.len() <= exp.len(),
            format!("{sig}:{tag}"),
            "{what}: stream returned {} entries, model {} (first extra key {})",
            got.len(),
            exp.len(),
            hex(&got[exp.len().min(got.len() - 1)].0)
        );
        ensure!(got.len() >= need, format!("{sig}_short:{tag}"), "{what}: stream returned {} entries, model {} (limit {limit:?})", got.len(), exp.len());
        for (j, g) in got.iter().enumerate() {
            let (k, v) = &self.sorted[exp[j]];
            ensure!(&g.0 == k, format!("{sig}:{tag}"), "{what}: entry {j}: key {} expected {}", hex(&g.0), hex(k));
            ensure!(&g.1 == v, format!("{sig}_value:{tag}"), "{what}: entry {j} key {}: value {:?} expected {:?}", hex(k), g.1, v);
            if check_ord {
                ensure!(g.2 == exp[j] as u64, format!("stream_term_ord_mismatch:{}", self.vname), "{what}: entry {j} key {}: term_ord {} expected {}", hex(k), g.2, exp[j]);
            }
        }
        Ok(())
    }

    fn point(&self, kr: &KeyRef) -> CaseResult {
        let key = kr.resolve(&self.keys);
        let pos = self.sorted.binary_search_by(|e| e.0[..].cmp(&key[..]));
        let exp_val = pos.ok().map(|i| self.sorted[i].1.clone());
        let got = self.dict.get(&key).or_fail("get_error")?;
        ensure!(got == exp_val, format!("get_mismatch:{}", self.vname), "get({}) = {:?}, model {:?}", hex(&key), got, exp_val);
        let got = self.dict.term_ord(&key).or_fail("term_ord_error")?;
        ensure!(got == pos.ok().map(|i| i as u64), format!("term_ord_mismatch:{}", self.vname), "term_ord({}) = {:?}, model {:?}", hex(&key), got, pos);
        let hit = self.dict.term_ord_or_next(&key).or_fail("term_ord_or_next_error")?;
        let sig = format!("term_ord_or_next_mismatch:{}", self.vname);
        match (hit.clone(), pos) {
            (TermOrdHit::Exact(o), Ok(i)) => ensure!(o == i as u64, sig, "term_ord_or_next({}) = Exact({o}), model Exact({i})", hex(&key)),
            (TermOrdHit::Next(o), Err(i)) if i < self.n() => ensure!(o == i as u64, sig, "term_ord_or_next({}) = Next({o}), model Next({i})", hex(&key)),
            (TermOrdHit::Next(o), Err(i)) => ensure!(o >= self.n() as u64, sig, "term_ord_or_next({}) = Next({o}) but no successor exists ({i} keys)", hex(&key)),
            (h, p) => fail!(sig, "term_ord_or_next({}) = {h:?}, model {p:?}", hex(&key)),
        }
        self.cx.label(if pos.is_ok() { "point_present" } else { "point_absent" });
        // boundary classes: the key is the last key of a block, or falls between two blocks
        if self.blocks.len() >= 2 {
            let succ = match pos {
                Ok(i) => i + 1,
                Err(i) => i,
            };
            if succ < self.n() && self.blocks.contains(&(succ as u64)) {
                self.spans.set(self.spans.get() + 1);
                self.cx.label(if pos.is_ok() { "point_last_key_of_block" } else { "point_between_blocks" });
            }
        }
        Ok(())
    }

    fn ord(&self, or: &OrdRef) -> CaseResult {
        let ord = or.resolve(self.n());
        let mut buf = b"stale".to_vec();
        let found = self.dict.ord_to_term(ord, &mut buf).or_fail("ord_to_term_error")?;
        let sig = format!("ord_to_term_mismatch:{}", self.vname);
        if (ord as usize) < self.n() && ord < usize::MAX as u64 {
            ensure!(found, sig, "ord_to_term({ord}) = false with {} keys", self.n());
            ensure!(buf == self.sorted[ord as usize].0, sig, "ord_to_term({ord}) = {}, model {}", hex(&buf), hex(&self.sorted[ord as usize].0));
            let v = self.dict.term_info_from_ord(ord).or_fail("term_info_from_ord_error")?;
            ensure!(v.as_ref() == Some(&self.sorted[ord as usize].1), format!("term_info_from_ord_mismatch:{}", self.vname), "term_info_from_ord({ord}) = {v:?}, model {:?}", self.sorted[ord as usize].1);
            self.cx.label("ord_in_range");
        } else {
            ensure!(!found, sig, "ord_to_term({ord}) = true ({}) with only {} keys", hex(&buf), self.n());
            let v = self.dict.term_info_from_ord(ord).or_fail("term_info_from_ord_error")?;
            ensure!(v.is_none(), format!("term_info_from_ord_mismatch:{}", self.vname), "term_info_from_ord({ord}) = {v:?} with only {} keys", self.n());
            self.cx.label("ord_out_of_range");
        }
        Ok(())
    }

    fn bounds_to_ord(&self, lo: &BoundSpec, hi: &BoundSpec) -> CaseResult {
        let lo = lo.resolve(&self.keys);
        let hi = hi.resolve(&self.keys);
        let (ol, oh) = self.dict.term_bounds_to_ord(lo.clone(), hi.clone()).or_fail("term_bounds_to_ord_error")?;
        let exp = self.expected(&lo, &hi);
        let sel: Vec<usize> = (0..self.n())
            .filter(|i| {
                let i = *i as u64;
                (match ol {
                    Bound::Unbounded => true,
                    Bound::Included(o) => i >= o,
                    Bound::Excluded(o) => i > o,
                }) && (match oh {
                    Bound::Unbounded => true,
                    Bound::Included(o) => i <= o,
                    Bound::Excluded(o) => i < o,
                })
            })
            .collect();
        ensure!(
            sel == exp,
            format!("term_bounds_to_ord_mismatch:{}", self.vname),
            "term_bounds_to_ord({}, {}) = ({ol:?}, {oh:?}) selects ordinals {:?}..{:?} ({}), model {:?}..{:?} ({})",
            hexb(&lo),
            hexb(&hi),
            sel.first(),
            sel.last(),
            sel.len(),
            exp.first(),
            exp.last(),
            exp.len()
        );
        self.note_span(&exp);
        self.cx.label("bounds_to_ord");
        Ok(())
    }

    fn sorted_ords(&self, ords: &[OrdRef]) -> CaseResult {
        let mut ords: Vec<u64> = ords.iter().map(|o| o.resolve(self.n())).collect();
        ords.sort();
        let mut got: Vec<Vec<u8>> = vec![];
        let all = self.dict.sorted_ords_to_term_cb(&ords, |k| got.push(k.to_vec())).or_fail("sorted_ords_to_term_cb_error")?;
        let valid: Vec<usize> = ords.iter().filter(|o| **o < self.n() as u64).map(|o| *o as usize).collect();
        let sig = format!("sorted_ords_to_term_cb_mismatch:{}", self.vname);
        ensure!(all == (valid.len() == ords.len()), sig, "sorted_ords_to_term_cb({ords:?}) returned {all} with {} keys", self.n());
        ensure!(got.len() <= valid.len() && (!all || got.len() == valid.len()), sig, "sorted_ords_to_term_cb({ords:?}): {} callbacks, model {}", got.len(), valid.len());
        for (j, g) in got.iter().enumerate() {
            ensure!(g == &self.sorted[valid[j]].0, sig, "sorted_ords_to_term_cb({ords:?}): callback {j} = {}, model {}", hex(g), hex(&self.sorted[valid[j]].0));
        }
        if all && !valid.is_empty() {
            self.note_span(&valid);
        }
        self.cx.label(if all { "sorted_ords_all_valid" } else { "sorted_ords_some_invalid" });
        self.cx.label_if(ords.windows(2).any(|w| w[0] == w[1]), "sorted_ords_duplicates");
        Ok(())
    }

    /// true if the unchanged tree is known to panic on this range (DESIGN §5 item 17): both bounds given and
    /// the block of the lower bound lies behind the block of the upper bound
    fn triggers_inverted_panic(&self, lo: &Bound<Vec<u8>>, hi: &Bound<Vec<u8>>) -> bool {
        let (Bound::Included(l) | Bound::Excluded(l)) = lo else { return false };
        let (Bound::Included(h) | Bound::Excluded(h)) = hi else { return false };
        let (Some(bl), Some(bh)) = (self.dict.sstable_index.get_block_with_key(l), self.dict.sstable_index.get_block_with_key(h)) else { return false };
        bl.byte_range.start > bh.byte_range.end
    }

    fn range(&self, lo: &BoundSpec, hi: &BoundSpec, limit: Option<u64>, use_next: bool) -> CaseResult {
        let lo = lo.resolve(&self.keys);
        let hi = hi.resolve(&self.keys);
        let inverted = bounds_inverted(&lo, &hi);
        let exp = self.expected(&lo, &hi);
        self.cx.label_if(inverted, "range_inverted");
        self.cx.label_if(exp.is_empty() && !inverted, "range_empty");
        self.cx.label_if(matches!(lo, Bound::Unbounded) || matches!(hi, Bound::Unbounded), "range_half_open");
        self.cx.label_if(limit.is_some(), "range_with_limit");
        self.cx.label_if(limit.map(|l| (l as usize) < exp.len()).unwrap_or(false), "range_limit_cuts");
        if inverted && self.triggers_inverted_panic(&lo, &hi) {
            self.cx.label("range_inverted_across_blocks");
            if self.cx.known_open(SIG_INVERTED_RANGE) {
                self.cx.excluded(SIG_INVERTED_RANGE, 1);
                return Ok(());
            }
        }
        let huge_limit = limit.map(|l| l > u64::MAX / 2).unwrap_or(false);
        if huge_limit {
            self.cx.label("range_limit_huge");
            if self.cx.known_open(SIG_LIMIT_OVERFLOW) && self.blocks.len() >= 2 {
                self.cx.excluded(SIG_LIMIT_OVERFLOW, 1);
                return Ok(());
            }
        }
        let what = format!("range({}, {}).limit({limit:?}) on {} keys / {} blocks", hexb(&lo), hexb(&hi), self.n(), self.blocks.len());
        let res = catch_unwind(AssertUnwindSafe(|| -> Result<Vec<(Vec<u8>, S::Value, u64)>, Failure> {
            let mut b = self.dict.range();
            b = match &lo {
                Bound::Unbounded => b,
                Bound::Included(k) => b.ge(k),
                Bound::Excluded(k) => b.gt(k),
            };
            b = match &hi {
                Bound::Unbounded => b,
                Bound::Included(k) => b.le(k),
                Bound::Excluded(k) => b.lt(k),
            };
            if let Some(l) = limit {
                b = b.limit(l);
            }
            let mut st = b.into_stream().or_fail("range_into_stream_error")?;
            Ok(drain(&mut st, self.n() + 2, use_next))
        }));
        let got = match res {
            Ok(r) => r?,
            Err(p) => {
                let msg = panic_text(&p);
                if inverted {
                    fail!(SIG_INVERTED_RANGE, "{what}: panicked: {msg}");
                } else if huge_limit {
                    fail!(SIG_LIMIT_OVERFLOW, "{what}: panicked: {msg}");
                } else {
                    fail!(format!("range_panics:{}", self.vname), "{what}: panicked: {msg}");
                }
            }
        };
        if huge_limit {
            // a wrapped-around limit shows as a short stream: give it the overflow signature
            if got.len() < exp.len() {
                fail!(SIG_LIMIT_OVERFLOW, "{what}: stream returned {} entries, model {}", got.len(), exp.len());
            }
        }
        self.compare(&what, "range_mismatch", &got, &exp, limit, true)?;
        self.note_span(&exp);
        self.cx.evals(1);
        Ok(())
    }

    fn prefix(&self, kr: &KeyRef) -> CaseResult {
        let p = kr.resolve(&self.keys);
        let exp: Vec<usize> = (0..self.n()).filter(|i| self.sorted[*i].0.starts_with(&p)).collect();
        let mut st = self.dict.prefix_range(&p).into_stream().or_fail("prefix_into_stream_error")?;
        let got = drain(&mut st, self.n() + 2, false);
        self.compare(&format!("prefix_range({})", hex(&p)), "prefix_mismatch", &got, &exp, None, true)?;
        self.note_span(&exp);
        self.cx.label(if exp.is_empty() { "prefix_no_hit" } else { "prefix_hits" });
        self.cx.label_if(p.last() == Some(&0xFF), "prefix_ends_with_ff");
        self.cx.label_if(p.is_empty(), "prefix_empty");
        Ok(())
    }

    fn search(&self, aut: &AutSpec, lo: &BoundSpec, hi: &BoundSpec, limit: Option<u64>) -> CaseResult {
        let lo = lo.resolve(&self.keys);
        let hi = hi.resolve(&self.keys);
        if bounds_inverted(&lo, &hi) && self.triggers_inverted_panic(&lo, &hi) && matches!(aut, AutSpec::Always) && self.cx.known_open(SIG_INVERTED_RANGE) {
            self.cx.excluded(SIG_INVERTED_RANGE, 1);
            return Ok(());
        }
        struct V<'e, 'a, S: SSTable> {
            env: &'e Env<'a, S>,
            lo: Bound<Vec<u8>>,
            hi: Bound<Vec<u8>>,
            limit: Option<u64>,
        }
        impl<'e, 'a, S: SSTable> AutVisitor for V<'e, 'a, S>
        where S::Value: PartialEq + Debug
        {
            type Out = CaseResult;
            fn visit<A: Automaton>(self, a: &A, kind: &'static str) -> CaseResult
            where A::State: Clone {
                let env = self.env;
                let exp: Vec<usize> = env.expected(&self.lo, &self.hi).into_iter().filter(|i| aut_matches(a, &env.sorted[*i].0)).collect();
                let always = a.will_always_match(&a.start());
                let huge_limit = self.limit.map(|l| l > u64::MAX / 2).unwrap_or(false);
                if always && huge_limit && env.cx.known_open(SIG_LIMIT_OVERFLOW) && env.blocks.len() >= 2 {
                    env.cx.excluded(SIG_LIMIT_OVERFLOW, 1);
                    return Ok(());
                }
                if always && bounds_inverted(&self.lo, &self.hi) && env.triggers_inverted_panic(&self.lo, &self.hi) && env.cx.known_open(SIG_INVERTED_RANGE) {
                    env.cx.excluded(SIG_INVERTED_RANGE, 1);
                    return Ok(());
                }
                let what = format!("search[{kind}]({}, {}).limit({:?}) on {} keys / {} blocks", hexb(&self.lo), hexb(&self.hi), self.limit, env.n(), env.blocks.len());
                let res = catch_unwind(AssertUnwindSafe(|| -> Result<Vec<(Vec<u8>, S::Value, u64)>, Failure> {
                    let mut b = env.dict.search(a);
                    b = match &self.lo {
                        Bound::Unbounded => b,
                        Bound::Included(k) => b.ge(k),
                        Bound::Excluded(k) => b.gt(k),
                    };
                    b = match &self.hi {
                        Bound::Unbounded => b,
                        Bound::Included(k) => b.le(k),
                        Bound::Excluded(k) => b.lt(k),
                    };
                    if let Some(l) = self.limit {
                        b = b.limit(l);
                    }
                    let mut st = b.into_stream().or_fail("search_into_stream_error")?;
                    Ok(drain(&mut st, env.n() + 2, false))
                }));
                let got = match res {
                    Ok(r) => r?,
                    Err(p) => {
                        let msg = panic_text(&p);
                        if always && bounds_inverted(&self.lo, &self.hi) {
                            fail!(SIG_INVERTED_RANGE, "{what}: panicked: {msg}");
                        } else if always && huge_limit {
                            fail!(SIG_LIMIT_OVERFLOW, "{what}: panicked: {msg}");
                        }
                        fail!(format!("search_panics:{kind}"), "{what}: panicked: {msg}");
                    }
                };
                if always && huge_limit && got.len() < exp.len() {
                    fail!(SIG_LIMIT_OVERFLOW, "{what}: stream returned {} entries, model {}", got.len(), exp.len());
                }
                // the ordinal reported by an automaton stream is judged separately (own signature)
                env.compare_tagged(&what, "search_mismatch", kind, &got, &exp, self.limit, false)?;
                if always {
                    for (j, g) in got.iter().enumerate() {
                        ensure!(g.2 == exp[j] as u64, format!("stream_term_ord_mismatch:{}", env.vname), "{what}: entry {j} key {}: term_ord {} expected {}", hex(&g.0), g.2, exp[j]);
                    }
                } else if env.cx.known_open(SIG_AUT_TERM_ORD) {
                    // Streamer::term_ord() of a pruning automaton stream is a known finding: not compared
                    env.cx.excluded(SIG_AUT_TERM_ORD, 1);
                } else {
                    for (j, g) in got.iter().enumerate() {
                        ensure!(g.2 == exp[j] as u64, SIG_AUT_TERM_ORD, "{what}: entry {j} key {}: Streamer::term_ord() = {}, model {}", hex(&g.0), g.2, exp[j]);
                    }
                }
                env.note_span(&exp);
                env.cx.label(&format!("search_{kind}"));
                env.cx.label_if(!exp.is_empty(), &format!("search_{kind}_hits"));
                env.cx.label_if(exp.len() >= 2 && env.blocks.len() >= 3 && env.block_of(exp[exp.len() - 1]) > env.block_of(exp[0]) + 1, "search_hits_skip_blocks");
                env.cx.evals(1);
                Ok(())
            }
        }
        match with_automaton(aut, &self.keys, V { env: self, lo, hi, limit }) {
            Some(r) => r,
            None => {
                self.cx.label("regex_rejected");
                Ok(())
            }
        }
    }
}

fn run_sstable<S: SSTable>(c: &SstCase, keys: Vec<Vec<u8>>, values: Vec<S::Value>, vname: &'static str, cx: &Ctx) -> CaseResult
where S::Value: PartialEq + Debug {
    let sorted: Vec<(Vec<u8>, S::Value)> = keys.into_iter().zip(values).collect();
    let bytes = build_sstable::<S>(&sorted, c.block_len as usize)?;
    let file_len = bytes.len();
    let dict = Dictionary::<S>::from_bytes(OwnedBytes::new(bytes)).or_fail("sstable_open_error")?;
    let blocks = block_first_ordinals(&dict);
    let env = Env { dict: &dict, sorted: &sorted, keys: sorted.iter().map(|e| &e.0[..]).collect(), blocks, vname, cx, spans: Cell::new(0) };
    let n = sorted.len();
    ensure!(dict.num_terms() == n, format!("num_terms_mismatch:{vname}"), "num_terms {} model {n}", dict.num_terms());
    // full stream: keys, values, ordinals
    let all: Vec<usize> = (0..n).collect();
    let mut st = dict.stream().or_fail("stream_error")?;
    let got = drain(&mut st, n + 2, false);
    env.compare("stream()", "stream_mismatch", &got, &all, None, true)?;
    // every key: exact lookups (cheap: one block each); for large sets a strided subset
    let stride = (n / 64).max(1);
    let mut buf = vec![];
    for i in (0..n).step_by(stride).chain(n.saturating_sub(1)..n) {
        let (k, v) = &sorted[i];
        let g = dict.get(k).or_fail("get_error")?;
        ensure!(g.as_ref() == Some(v), format!("get_mismatch:{vname}"), "get({}) = {g:?}, model {v:?} (ordinal {i})", hex(k));
        let o = dict.term_ord(k).or_fail("term_ord_error")?;
        ensure!(o == Some(i as u64), format!("term_ord_mismatch:{vname}"), "term_ord({}) = {o:?}, model {i}", hex(k));
        ensure!(dict.ord_to_term(i as u64, &mut buf).or_fail("ord_to_term_error")? && &buf == k, format!("ord_to_term_mismatch:{vname}"), "ord_to_term({i}) = {}, model {}", hex(&buf), hex(k));
    }
    for op in &c.ops {
        match op {
            Op::Point(k) => env.point(k)?,
            Op::Ord(o) => env.ord(o)?,
            Op::BoundsToOrd(a, b) => env.bounds_to_ord(a, b)?,
            Op::SortedOrds(o) => env.sorted_ords(o)?,
            Op::Range { lo, hi, limit, use_next } => env.range(lo, hi, *limit, *use_next)?,
            Op::Prefix(k) => env.prefix(k)?,
            Op::Search { aut, lo, hi, limit } => env.search(aut, lo, hi, *limit)?,
        }
    }
    // classification
    let nb = env.blocks.len();
    cx.label(&format!("vtype_{vname}"));
    cx.label(match n {
        0 => "keys=0",
        1 => "keys=1",
        2..=39 => "keys<40",
        40..=199 => "keys<200",
        _ => "keys>=200",
    });
    cx.label(match nb {
        0 | 1 => "blocks=1",
        2..=128 => "blocks=2..128",
        129..=256 => "blocks=129..256",
        _ => "blocks>256",
    });
    cx.label_if(n > 0 && sorted[0].0.is_empty(), "has_empty_key");
    let maxlen = sorted.iter().map(|e| e.0.len()).max().unwrap_or(0);
    cx.label_if(maxlen >= 20_000, "key>=20KB");
    cx.label_if(maxlen >= 2_000, "key>=2KB");
    cx.label_if(file_len > 2048 && c.block_len >= 2000, "block_compressible(>2048)");
    let shared16 = sorted.windows(2).any(|w| {
        let cp = w[0].0.iter().zip(w[1].0.iter()).take_while(|(a, b)| a == b).count();
        cp >= 16
    });
    cx.label_if(shared16, "shared_prefix>=16");
    let add16 = sorted.windows(2).any(|w| {
        let cp = w[0].0.iter().zip(w[1].0.iter()).take_while(|(a, b)| a == b).count();
        w[1].0.len() - cp >= 16
    });
    cx.label_if(add16, "suffix>=16");
    cx.label_if(sorted.iter().any(|e| e.0.contains(&0xFF)), "key_with_ff");
    cx.label_if(sorted.iter().any(|e| e.0.contains(&0x00)), "key_with_00");
    if nb >= 2 && env.spans.get() > 0 {
        cx.nontrivial(fp(c));
    }
    cx.sample(|| json!({"sub":"sstable","keys":n,"blocks":nb,"vtype":vname,"block_len":c.block_len,"ops":c.ops.iter().take(4).collect::<Vec<_>>()}));
    Ok(())
}

pub struct Sst;
impl Sst {
    pub fn run_case(c: &SstCase, cx: &Ctx) -> CaseResult {
        let keys = c.keys.build();
        let n = keys.len();
        match c.vtype {
            VType::Void => run_sstable::<VoidSSTable>(c, keys, vec![(); n], "void", cx),
            VType::U64 => run_sstable::<MonotonicU64SSTable>(c, keys, gen_u64(n, c.vseed), "u64", cx),
            VType::Range => run_sstable::<RangeSSTable>(c, keys, gen_ranges(n, c.vseed), "range", cx),
            VType::VecU32 => run_sstable::<VecU32ValueSSTable>(c, keys, gen_vecs(n, c.vseed), "vecu32", cx),
        }
    }
}
impl Sub for Sst {
    type Case = SstCase;
    fn name(&self) -> &'static str {
        "sstable"
    }
    fn cases(&self, tier: Tier) -> u32 {
        tier.pick(14_000, 300_000)
    }
    fn max_shrink_iters(&self) -> u32 {
        3000
    }
    fn strategy(&self, tier: Tier) -> BoxedStrategy<SstCase> {
        let vtype = prop_oneof![Just(VType::Void), Just(VType::U64), Just(VType::Range), Just(VType::VecU32)];
        (keyset_strategy(tier.pick(700, 900), true), vtype, any::<u64>(), block_len_strategy(), prop::collection::vec(op_strategy(), 8..40))
            .prop_map(|(keys, vtype, vseed, block_len, ops)| SstCase { keys, vtype, vseed, block_len, ops })
            .boxed()
    }
    fn mandatory_labels(&self, _t: Tier) -> Vec<&'static str> {
        vec![
            "vtype_void",
            "vtype_u64",
            "vtype_range",
            "vtype_vecu32",
            "keys=0",
            "keys=1",
            "keys>=200",
            "blocks=1",
            "blocks=2..128",
            "blocks=129..256",
            "blocks>256",
            "has_empty_key",
            "key>=20KB",
            "shared_prefix>=16",
            "suffix>=16",
            "key_with_ff",
            "key_with_00",
            "block_compressible(>2048)",
            "point_present",
            "point_absent",
            "point_between_blocks",
            "point_last_key_of_block",
            "ord_in_range",
            "ord_out_of_range",
            "bounds_to_ord",
            "sorted_ords_all_valid",
            "sorted_ords_some_invalid",
            "range_inverted",
            "range_inverted_across_blocks",
            "range_empty",
            "range_half_open",
            "range_limit_cuts",
            "range_limit_huge",
            "prefix_hits",
            "prefix_ends_with_ff",
            "search_prefix_hits",
            "search_exact_hits",
            "search_lev0_hits",
            "search_lev1_hits",
            "search_lev1t_hits",
            "search_lev2_hits",
            "search_lev2t_hits",
            "search_regex_hits",
            "search_contains_hits",
            "search_lenmod_hits",
            "search_always",
            "search_hits_skip_blocks",
        ]
    }
    fn run(&self, c: &SstCase, cx: &Ctx) -> CaseResult {
        Sst::run_case(c, cx)
    }
}

// ================================================================================================
// sub-check `order`: builders reject a sequence that is not strictly increasing
// ================================================================================================

#[derive(Clone, Copy, Debug, Serialize, Deserialize, PartialEq)]
pub enum BuilderKind {
    SstVoid,
    SstU64,
    SstRange,
    SstVecU32,
    Fst,
}
#[derive(Clone, Debug, Serialize, Deserialize)]
pub enum Viol {
    /// the predecessor once more
    Dup,
    /// one of the keys before the predecessor
    Earlier(u16),
    /// the predecessor without its last byte (a proper prefix sorts before)
    PrefixOfPrev,
    /// the predecessor with its last byte decremented
    DecLast,
    /// the predecessor cut at a fraction and a byte smaller than the one cut off appended
    Diverge(u16),
}
#[derive(Clone, Debug, Serialize, Deserialize)]
pub struct OrderCase {
    pub keys: KeySet,
    pub block_len: u16,
    pub builder: BuilderKind,
    /// the violating key is inserted after `at` (mapped into 1..=n) correct keys
    pub at: u16,
    pub kind: Viol,
}

/// feeds `seq` to the builder; Ok(true) = rejected (Err or panic), Ok(false) = everything incl. finish succeeded
fn feed_sstable<S: SSTable>(seq: &[Vec<u8>], values: Vec<S::Value>, block_len: usize) -> bool {
    let r = catch_unwind(AssertUnwindSafe(|| -> std::io::Result<()> {
        let mut w = Dictionary::<S>::builder(Vec::new())?;
        w.set_block_len(block_len);
        for (k, v) in seq.iter().zip(values.iter()) {
            w.insert(k, v)?;
        }
        w.finish()?;
        Ok(())
    }));
    !matches!(r, Ok(Ok(())))
}
pub fn chained_term_infos(n: usize, seed: u64) -> Vec<tantivy::postings::TermInfo> {
    let mut l = Lcg(seed);
    let mut p = (l.delta() & 0xffff) as usize;
    let mut q = (l.delta() & 0xffff) as usize;
    (0..n)
        .map(|_| {
            let pe = p + (l.delta() & 0xff_ffff) as usize;
            let qe = q + (l.delta() & 0xff_ffff) as usize;
            let ti = tantivy::postings::TermInfo { doc_freq: (l.next() >> (l.next() % 33 + 31)) as u32, postings_range: p..pe, positions_range: q..qe };
            p = pe;
            q = qe;
            ti
        })
        .collect()
}
fn feed_fst(seq: &[Vec<u8>], seed: u64) -> bool {
    let infos = chained_term_infos(seq.len(), seed);
    let r = catch_unwind(AssertUnwindSafe(|| -> std::io::Result<()> {
        let mut w = tantivy::termdict::TermDictionaryBuilder::create(Vec::new())?;
        for (k, v) in seq.iter().zip(infos.iter()) {
            w.insert(k, v)?;
        }
        w.finish()?;
        Ok(())
    }));
    !matches!(r, Ok(Ok(())))
}

pub struct Order;
impl Order {
    pub fn run_case(c: &OrderCase, cx: &Ctx) -> CaseResult {
        let mut sorted = c.keys.build();
        if sorted.is_empty() {
            sorted.push(vec![]);
        }
        let n = sorted.len();
        let at = 1 + idx(c.at, n); // 1..=n
        let prev = sorted[at - 1].clone();
        let (bad, kname): (Vec<u8>, &str) = match &c.kind {
            Viol::Dup => (prev.clone(), "dup"),
            Viol::Earlier(i) => (sorted[idx(*i, at)].clone(), "earlier"),
            Viol::PrefixOfPrev if !prev.is_empty() => (prev[..prev.len() - 1].to_vec(), "prefix_of_prev"),
            Viol::DecLast if !prev.is_empty() => {
                let mut k = prev.clone();
                match k.last_mut() {
                    Some(b) if *b > 0 => *b -= 1,
                    _ => {
                        k.pop();
                    }
                }
                (k, "dec_last")
            }
            Viol::Diverge(f) if !prev.is_empty() => {
                let cut = idx(*f, prev.len());
                let mut k = prev[..cut].to_vec();
                if prev[cut] > 0 {
                    k.push(prev[cut] - 1);
                    k.extend_from_slice(&[0xFF, 0xFF]);
                }
                (k, "diverge")
            }
            _ => (prev.clone(), "dup"),
        };
        ensure!(bad <= prev, "INFRA:violation_not_smaller", "{} vs {}", hex(&bad), hex(&prev));
        let mut seq: Vec<Vec<u8>> = sorted[..at].to_vec();
        seq.push(bad.clone());
        seq.extend_from_slice(&sorted[at..]);
        let dup_empty = bad.is_empty() && prev.is_empty();
        let is_sst = c.builder != BuilderKind::Fst;
        cx.label(&format!("viol_{kname}"));
        cx.label(&format!("builder_{:?}", c.builder));
        cx.label_if(dup_empty, "viol_repeated_empty_key");
        cx.label_if(at == n, "viol_is_last_key");
        // is the violating key the first key of a block?  (sentinel larger than the predecessor, inserted after the
        // correct prefix: does it open a new block?)
        let mut at_block_start = false;
        if is_sst {
            let mut probe: Vec<(Vec<u8>, ())> = sorted[..at].iter().map(|k| (k.clone(), ())).collect();
            let mut sentinel = prev.clone();
            sentinel.push(0);
            probe.push((sentinel.clone(), ()));
            let bytes = build_sstable::<VoidSSTable>(&probe, c.block_len as usize)?;
            let d = Dictionary::<VoidSSTable>::from_bytes(OwnedBytes::new(bytes)).or_fail("INFRA:probe_open")?;
            at_block_start = block_first_ordinals(&d).contains(&(at as u64));
            cx.label_if(at_block_start, "viol_at_block_start");
            cx.label_if(!at_block_start, "viol_inside_block");
        }
        if dup_empty && is_sst && !at_block_start && cx.known_open(SIG_DUP_EMPTY) {
            cx.excluded(SIG_DUP_EMPTY, 1);
            return Ok(());
        }
        let m = seq.len();
        let rejected = match c.builder {
            BuilderKind::SstVoid => feed_sstable::<VoidSSTable>(&seq, vec![(); m], c.block_len as usize),
            BuilderKind::SstU64 => feed_sstable::<MonotonicU64SSTable>(&seq, gen_u64(m, 7), c.block_len as usize),
            BuilderKind::SstRange => feed_sstable::<RangeSSTable>(&seq, gen_ranges(m, 7), c.block_len as usize),
            BuilderKind::SstVecU32 => feed_sstable::<VecU32ValueSSTable>(&seq, gen_vecs(m, 7), c.block_len as usize),
            BuilderKind::Fst => feed_fst(&seq, 7),
        };
        if !rejected {
            let what = format!("{:?} accepted key #{at} = {} after {} ({kname}; {} keys, block_len {}, at block start: {at_block_start})", c.builder, hex(&bad), hex(&prev), m, c.block_len);
            if dup_empty && is_sst {
                fail!(SIG_DUP_EMPTY, "{what}");
            }
            fail!(format!("out_of_order_key_accepted:{}", if is_sst { "sstable" } else { "fst" }), "{what}");
        }
        cx.nontrivial(fp(c));
        cx.sample(|| json!({"sub":"order","builder":format!("{:?}", c.builder),"keys":m,"at":at,"kind":kname,"bad":hex(&bad),"prev":hex(&prev)}));
        Ok(())
    }
}
impl Sub for Order {
    type Case = OrderCase;
    fn name(&self) -> &'static str {
        "order"
    }
    fn cases(&self, tier: Tier) -> u32 {
        tier.pick(12_000, 300_000)
    }
    fn strategy(&self, _tier: Tier) -> BoxedStrategy<OrderCase> {
        let builder = prop_oneof![
            3 => Just(BuilderKind::SstVoid),
            2 => Just(BuilderKind::SstU64),
            1 => Just(BuilderKind::SstRange),
            1 => Just(BuilderKind::SstVecU32),
            3 => Just(BuilderKind::Fst),
        ];
        let kind = prop_oneof![
            3 => Just(Viol::Dup),
            2 => any::<u16>().prop_map(Viol::Earlier),
            2 => Just(Viol::PrefixOfPrev),
            2 => Just(Viol::DecLast),
            2 => any::<u16>().prop_map(Viol::Diverge),
        ];
        // `at` small with extra weight: the first keys (incl. the empty key at position 0) matter
        let at = prop_oneof![1 => Just(0u16), 9 => any::<u16>()];
        (keyset_strategy(120, false), block_len_strategy(), builder, at, kind).prop_map(|(keys, block_len, builder, at, kind)| OrderCase { keys, block_len, builder, at, kind }).boxed()
    }
    fn mandatory_labels(&self, _t: Tier) -> Vec<&'static str> {
        vec![
            "viol_dup",
            "viol_earlier",
            "viol_prefix_of_prev",
            "viol_dec_last",
            "viol_diverge",
            "viol_repeated_empty_key",
            "viol_at_block_start",
            "viol_inside_block",
            "viol_is_last_key",
            "builder_SstVoid",
            "builder_SstU64",
            "builder_SstRange",
            "builder_SstVecU32",
            "builder_Fst",
        ]
    }
    fn run(&self, c: &OrderCase, cx: &Ctx) -> CaseResult {
        Order::run_case(c, cx)
    }
}

// ================================================================================================
// libFuzzer entry: total decoding of a byte string into a case
// ================================================================================================

struct Dec<'a> {
    d: &'a [u8],
    p: usize,
}
impl<'a> Dec<'a> {
    fn u8(&mut self) -> u8 {
        let b = self.d.get(self.p).copied().unwrap_or(0);
        self.p += 1;
        b
    }
    fn u16(&mut self) -> u16 {
        u16::from_le_bytes([self.u8(), self.u8()])
    }
    fn u64(&mut self) -> u64 {
        let mut x = 0u64;
        for _ in 0..8 {
            x = (x << 8) | self.u8() as u64;
        }
        x
    }
    fn left(&self) -> bool {
        self.p < self.d.len()
    }
    fn bytes(&mut self, max: usize) -> Vec<u8> {
        let n = (self.u8() as usize) % (max + 1);
        (0..n).map(|_| self.u8()).collect()
    }
    fn keyref(&mut self) -> KeyRef {
        match self.u8() % 7 {
            0 => KeyRef::Lit(self.bytes(6)),
            1 => KeyRef::At(self.u16()),
            2 => KeyRef::Append(self.u16(), self.u8()),
            3 => KeyRef::Pop(self.u16(), self.u8() % 3),
            4 => KeyRef::Inc(self.u16()),
            5 => KeyRef::Dec(self.u16()),
            _ => KeyRef::Cut(self.u16(), self.u16()),
        }
    }
    fn bound(&mut self) -> BoundSpec {
        match self.u8() % 3 {
            0 => BoundSpec::U,
            1 => BoundSpec::I(self.keyref()),
            _ => BoundSpec::E(self.keyref()),
        }
    }
    fn ordref(&mut self) -> OrdRef {
        match self.u8() % 8 {
            0 => OrdRef::Len,
            1 => OrdRef::LenPlus(self.u8() as u32),
            2 => OrdRef::Max,
            _ => OrdRef::In(self.u16()),
        }
    }
    fn limit(&mut self) -> Option<u64> {
        match self.u8() % 8 {
            0..=3 => None,
            4 | 5 => Some(self.u8() as u64 % 8),
            6 => Some(self.u16() as u64),
            _ => Some(u64::MAX - (self.u8() as u64 % 3)),
        }
    }
    fn aut(&mut self) -> AutSpec {
        match self.u8() % 8 {
            0 => AutSpec::Always,
            1 => AutSpec::Prefix(self.keyref()),
            2 => AutSpec::Exact(self.keyref()),
            3 | 4 => {
                let f = self.u8();
                AutSpec::Lev { word: self.keyref(), dist: f % 3, transpose: f & 4 != 0, prefix: f & 24 == 24 }
            }
            5 => AutSpec::Regex { word: self.keyref(), form: self.u8() % 10 },
            6 => AutSpec::Contains(self.u8()),
            _ => {
                let m = 1 + self.u8() % 4;
                AutSpec::LenMod(m, self.u8() % m)
            }
        }
    }
    fn keyset(&mut self, max_keys: usize) -> KeySet {
        let empty_key = self.u8() & 1 == 1;
        let n = (self.u8() as usize * 3) % (max_keys + 1);
        let mut pieces = vec![];
        for _ in 0..n {
            if !self.left() {
                break;
            }
            let f = self.u8();
            let keep = match f & 3 {
                0 => 0,
                1 => (self.u8() % 20) as u16,
                2 => u16::MAX,
                _ => self.u16() % 300,
            };
            let run = match (f >> 2) & 7 {
                0..=2 => 0,
                3 | 4 => (self.u8() % 20) as u32,
                5 => self.u16() as u32 % 600,
                6 => 3000 + self.u16() as u32 % 2000,
                _ => {
                    if f & 0xE0 == 0xE0 {
                        20_000 + self.u16() as u32 % 21_000
                    } else {
                        14 + (self.u8() % 4) as u32
                    }
                }
            };
            let fill = match (f >> 5) & 3 {
                0 => 0,
                1 => 0xFF,
                2 => b'a',
                _ => self.u8(),
            };
            pieces.push(KeyPiece { keep, fill, run, tail: self.bytes(3) });
        }
        KeySet { empty_key, pieces }
    }
}

/// libFuzzer target body: every byte string is some case of sub `sstable` (or, for a first byte >= 200, of `order`).
pub fn fuzz_one(data: &[u8]) -> Result<(), Failure> {
    let mut d = Dec { d: data, p: 0 };
    let known = crate::known::Known::empty();
    let stats = RefCell::new(Stats::default());
    let counting = Cell::new(false);
    let cx = Ctx::new(Tier::Quick, &known, true, &stats, &counting);
    let sel = d.u8();
    if sel >= 200 {
        let builder = match sel % 5 {
            0 => BuilderKind::SstVoid,
            1 => BuilderKind::SstU64,
            2 => BuilderKind::SstRange,
            3 => BuilderKind::SstVecU32,
            _ => BuilderKind::Fst,
        };
        let block_len = fuzz_block_len(&mut d);
        let at = d.u16();
        let kind = match d.u8() % 5 {
            0 => Viol::Dup,
            1 => Viol::Earlier(d.u16()),
            2 => Viol::PrefixOfPrev,
            3 => Viol::DecLast,
            _ => Viol::Diverge(d.u16()),
        };
        let keys = d.keyset(60);
        let case = OrderCase { keys, block_len, builder, at, kind };
        return guarded(|| Order::run_case(&case, &cx));
    }
    let vtype = match sel % 4 {
        0 => VType::Void,
        1 => VType::U64,
        2 => VType::Range,
        _ => VType::VecU32,
    };
    let block_len = fuzz_block_len(&mut d);
    let vseed = d.u64();
    let keys = d.keyset(if sel & 64 != 0 { 400 } else { 60 });
    let mut ops = vec![];
    while d.left() && ops.len() < 64 {
        ops.push(match d.u8() % 9 {
            0 | 1 => Op::Point(d.keyref()),
            2 => Op::Ord(d.ordref()),
            3 => Op::BoundsToOrd(d.bound(), d.bound()),
            4 => {
                let n = d.u8() % 10;
                Op::SortedOrds((0..n).map(|_| d.ordref()).collect())
            }
            5 | 6 => Op::Range { lo: d.bound(), hi: d.bound(), limit: d.limit(), use_next: d.u8() & 1 == 1 },
            7 => Op::Prefix(d.keyref()),
            _ => Op::Search { aut: d.aut(), lo: d.bound(), hi: d.bound(), limit: d.limit() },
        });
    }
    let case = SstCase { keys, vtype, vseed, block_len, ops };
    guarded(|| Sst::run_case(&case, &cx))
}
fn fuzz_block_len(d: &mut Dec) -> u16 {
    match d.u8() % 6 {
        0 => 0,
        1 => (d.u8() % 20) as u16,
        2 => d.u8() as u16,
        3 => d.u16() % 2100,
        _ => 4000,
    }
}
/// panics inside the oracle become failures with the engine's `panic:<file>` signature
fn guarded(f: impl FnOnce() -> CaseResult) -> CaseResult {
    match catch_unwind(AssertUnwindSafe(f)) {
        Ok(r) => r,
        Err(p) => Err(Failure::new("panic", panic_text(&p))),
    }
}

/// The libFuzzer decoding run inside the harness as well: arbitrary byte strings through `fuzz_one` (shows that the
/// decoding is total and keeps the fuzz target's oracle under the same regression regime).
pub struct FuzzBytes;
impl Sub for FuzzBytes {
    type Case = Vec<u8>;
    fn name(&self) -> &'static str {
        "fuzz_bytes"
    }
    fn cases(&self, tier: Tier) -> u32 {
        tier.pick(2_000, 40_000)
    }
    fn strategy(&self, _tier: Tier) -> BoxedStrategy<Vec<u8>> {
        prop_oneof![1 => prop::collection::vec(any::<u8>(), 0..40), 3 => prop::collection::vec(any::<u8>(), 40..600)].boxed()
    }
    fn mandatory_labels(&self, _t: Tier) -> Vec<&'static str> {
        vec!["decoded_sstable", "decoded_order"]
    }
    fn run(&self, c: &Vec<u8>, cx: &Ctx) -> CaseResult {
        cx.label(if c.first().copied().unwrap_or(0) >= 200 { "decoded_order" } else { "decoded_sstable" });
        fuzz_one(c)
    }
}
