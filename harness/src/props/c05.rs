//! C05 — searchers are immutable snapshots; readers only ever see whole commits.
use std::sync::atomic::{AtomicBool, AtomicU64, Ordering};
use std::sync::Arc;
use std::time::Duration;

use proptest::prelude::*;
use serde::{Deserialize, Serialize};
use serde_json::json;
use tantivy::collector::Count;
use tantivy::query::AllQuery;
use tantivy::{Index, IndexReader, ReloadPolicy, Searcher};

use crate::engine::*;
use crate::hist::*;
use crate::simdir::{GateSpec, K};
use crate::{ensure, fail};

pub fn def() -> PropDef {
    PropDef {
        id: "C05",
        level: "exploration",
        rule: "A writer thread runs a generated history (adds, deletes, commits tagged c<n>, aborts, rollbacks, explicit and policy merges, gc, writer drop/reopen) on SimDir or MmapDirectory while 1-3 reader threads - on the same Index and on a second Index::open of the same directory - loop reload(); fingerprint(searcher) and keep a generated subset of searchers alive to re-fingerprint them later (also after gc and after the writer is gone). SimDir gates hold a reloading reader at its n-th segment-file open for a bounded time while the writer continues. Oracle: every fingerprint taken after a reload equals the model of exactly one commit j with j >= the last commit completed before the reload began, j <= the last commit started before the observation ended, and j non-decreasing per reader; a held searcher's fingerprint, count and documents never change; no reload or search returns an error. Non-trivial = a reload overlapped a commit call (logical clock intervals) or a held searcher outlived >= 2 commits; distinct by hash(case).",
        assumptions: vec![
            "interleavings are those the OS produces plus bounded holds of readers at storage operations (gates); timeouts only steer, they never decide",
            "fingerprint = hash over (uid, group, body, num) of all live documents read through store and fast fields",
        ],
        subs: vec![Box::new(Readers)],
    }
}

#[derive(Clone, Debug, Serialize, Deserialize)]
pub struct ReaderSpec {
    pub second_index: bool,
    /// keep every k-th searcher alive (1..)
    pub hold_every: u8,
    /// hold this reader at its n-th segment-file open (SimDir only)
    pub gate_nth: Option<u8>,
}
#[derive(Clone, Debug, Serialize, Deserialize)]
pub struct ReadersCase {
    pub cfg: HistCfg,
    pub ops: Vec<Op>,
    pub readers: Vec<ReaderSpec>,
}

struct Obs {
    before: u64,
    after: u64,
    fp: u64,
}
struct ReaderOut {
    obs: Vec<Obs>,
    held: Vec<(Searcher, u64, u64, usize)>, // searcher, fingerprint, tick when taken, count
    error: Option<Failure>,
    reader: Option<IndexReader>,
}

fn fingerprint(s: &Searcher, f: &Fields) -> Result<(u64, usize), Failure> {
    let fpv = searcher_fingerprint(s, f)?;
    let n = s.search(&AllQuery, &Count).or_fail("search_failed")?;
    Ok((fpv, n))
}

pub struct Readers;
impl Sub for Readers {
    type Case = ReadersCase;
    fn name(&self) -> &'static str {
        "readers"
    }
    fn cases(&self, tier: Tier) -> u32 {
        tier.pick(640, 8000)
    }
    fn shards(&self, _t: Tier) -> usize {
        8
    }
    fn max_shrink_iters(&self) -> u32 {
        200
    }
    fn strategy(&self, _tier: Tier) -> BoxedStrategy<ReadersCase> {
        static DIRS: [DirKind; 3] = [DirKind::Sim, DirKind::Sim, DirKind::Mmap];
        let cfg = cfg_strategy(&DIRS).prop_map(|mut c| {
            c.threads = c.threads.min(3);
            c
        });
        let op = prop_oneof![
            12 => add_strategy().prop_map(Op::Add),
            3 => any::<u16>().prop_map(Op::DelUid),
            1 => (0..NUM_GROUPS).prop_map(Op::DelGroup),
            8 => Just(Op::Commit),
            1 => Just(Op::PrepareAbort),
            1 => Just(Op::Rollback),
            2 => any::<u16>().prop_map(Op::Merge),
            1 => Just(Op::WaitMerges),
            1 => Just(Op::Reopen),
            2 => Just(Op::Gc),
        ];
        let reader = (any::<bool>(), 1u8..4, prop::option::weighted(0.6, 0u8..12)).prop_map(|(second_index, hold_every, gate_nth)| ReaderSpec { second_index, hold_every, gate_nth });
        (cfg, prop::collection::vec(op, 6..50), prop::collection::vec(reader, 1..4)).prop_map(|(cfg, ops, readers)| ReadersCase { cfg, ops, readers }).boxed()
    }
    fn mandatory_labels(&self, _t: Tier) -> Vec<&'static str> {
        vec!["reload_overlapped_commit", "held_outlived_2_commits", "gate_reached", "second_index", "dir:Mmap", "merge", "gc"]
    }
    fn run(&self, c: &ReadersCase, cx: &Ctx) -> CaseResult {
        let mut env = Env::new(c.cfg.clone())?;
        env.check_quiescence = false;
        env.verify_each_commit = false;
        env.skip_dirty_delete_all = true;
        let clock = Arc::new(AtomicU64::new(1));
        let stop = Arc::new(AtomicBool::new(false));
        let (_schema, _f) = hist_schema();
        // commit spans in logical time: (j, start, end)
        let mut spans: Vec<(u64, u64, u64)> = vec![];
        let sim = match &env.dir {
            DirHandle::Sim(sd) => Some(sd.clone()),
            _ => None,
        };
        let second_index: Option<Index> = if c.readers.iter().any(|r| r.second_index) {
            Some(match &env.dir {
                DirHandle::Sim(sd) => Index::open(sd.clone()),
                DirHandle::Mmap(p) => Index::open(tantivy::directory::MmapDirectory::open(p).or_fail("INFRA:mmap")?),
                DirHandle::Ram(rd) => Index::open(rd.clone()),
            }
            .or_fail("second_index_open_failed")?)
        } else {
            None
        };
        let mut gates: Vec<Option<usize>> = vec![];
        for (i, r) in c.readers.iter().enumerate() {
            gates.push(match (&sim, r.gate_nth) {
                (Some(sd), Some(n)) => Some(sd.add_gate(GateSpec {
                    thread: format!("reader-{i}"),
                    kind: Some(K::OpenRead),
                    path_suffix: String::new(),
                    nth: n as usize,
                    max_hold: Duration::from_millis(120),
                })),
                _ => None,
            });
        }
        let first_index = env.index.clone();
        let mut history_result: CaseResult = Ok(());
        let outs: Vec<ReaderOut> = std::thread::scope(|scope| {
            let mut handles = vec![];
            for (i, r) in c.readers.iter().enumerate() {
                let index = if r.second_index { second_index.clone().unwrap() } else { first_index.clone() };
                let clock = clock.clone();
                let stop = stop.clone();
                let hold_every = r.hold_every.max(1) as usize;
                handles.push(
                    std::thread::Builder::new()
                        .name(format!("reader-{i}"))
                        .spawn_scoped(scope, move || {
                            let (_s, f) = hist_schema();
                            let mut out = ReaderOut { obs: vec![], held: vec![], error: None, reader: None };
                            let reader: IndexReader = match index.reader_builder().reload_policy(ReloadPolicy::Manual).try_into() {
                                Ok(r) => r,
                                Err(e) => {
                                    out.error = Some(Failure::new("reader_open_failed", format!("{e:?}")));
                                    return out;
                                }
                            };
                            let mut n = 0usize;
                            loop {
                                let finishing = stop.load(Ordering::SeqCst);
                                let before = clock.fetch_add(1, Ordering::SeqCst);
                                if let Err(e) = reader.reload() {
                                    out.error = Some(Failure::new("reload_failed", format!("reload #{n}: {e:?}")));
                                    break;
                                }
                                let s = reader.searcher();
                                let (fpv, cnt) = match fingerprint(&s, &f) {
                                    Ok(x) => x,
                                    Err(fl) => {
                                        out.error = Some(Failure::new(format!("reader_search:{}", fl.sig), format!("reload #{n}: {}", fl.detail)));
                                        break;
                                    }
                                };
                                let after = clock.fetch_add(1, Ordering::SeqCst);
                                out.obs.push(Obs { before, after, fp: fpv });
                                if n % hold_every == 0 && out.held.len() < 8 {
                                    out.held.push((s.clone(), fpv, after, cnt));
                                }
                                // re-check one held searcher: it must not have changed
                                if !out.held.is_empty() {
                                    let k = n % out.held.len();
                                    let (hs, hfp, _, hcnt) = &out.held[k];
                                    match fingerprint(hs, &f) {
                                        Ok((x, c2)) if x == *hfp && c2 == *hcnt => {}
                                        Ok((x, c2)) => {
                                            out.error = Some(Failure::new("held_searcher_changed", format!("fingerprint {hfp}->{x}, count {hcnt}->{c2}")));
                                            break;
                                        }
                                        Err(fl) => {
                                            out.error = Some(Failure::new(format!("held_searcher_error:{}", fl.sig), fl.detail));
                                            break;
                                        }
                                    }
                                }
                                n += 1;
                                if finishing || n > 4000 {
                                    break;
                                }
                                std::thread::yield_now();
                            }
                            out.reader = Some(reader);
                            out
                        })
                        .expect("spawn reader"),
                );
            }
            // the writer's history runs on this thread
            for op in c.ops.iter().chain(std::iter::once(&Op::Commit)) {
                let is_commit = matches!(op, Op::Commit | Op::PrepareCommit);
                let t0 = clock.fetch_add(1, Ordering::SeqCst);
                let before = env.commits;
                if let Err(f) = env.apply(op, cx) {
                    history_result = Err(f);
                    break;
                }
                let t1 = clock.fetch_add(1, Ordering::SeqCst);
                if is_commit && env.commits > before {
                    spans.push((env.commits, t0, t1));
                }
            }
            // let every reader do at least one more reload after the last commit, then stop
            stop.store(true, Ordering::SeqCst);
            if let Some(sd) = &sim {
                sd.release_all();
            }
            handles.into_iter().map(|h| h.join().unwrap_or_else(|_| ReaderOut { obs: vec![], held: vec![], error: Some(Failure::new("panic:reader", "reader thread panicked")), reader: None })).collect()
        });
        history_result?;
        // writer goes away, files get collected: held searchers must stay intact
        if let Some(w) = env.writer.take() {
            w.wait_merging_threads().or_fail("wait_merging_threads_failed")?;
        }
        env.new_writer()?;
        env.writer.as_ref().unwrap().garbage_collect_files().wait().or_fail("gc_failed")?;
        drop(env.writer.take());
        let model_fps: Vec<u64> = env.models.iter().map(model_fingerprint).collect();
        let (_s, f) = hist_schema();
        let mut overlapped = false;
        let mut outlived = false;
        let mut reloads = 0u64;
        for (ri, out) in outs.iter().enumerate() {
            if let Some(e) = &out.error {
                return Err(Failure::new(e.sig.clone(), format!("reader {ri} ({:?}): {}", c.readers[ri], e.detail)));
            }
            let mut prev_j = 0u64;
            for (oi, o) in out.obs.iter().enumerate() {
                reloads += 1;
                let j_min = spans.iter().filter(|(_, _, end)| *end <= o.before).map(|(j, _, _)| *j).max().unwrap_or(0);
                let j_max = spans.iter().filter(|(_, start, _)| *start <= o.after).map(|(j, _, _)| *j).max().unwrap_or(0);
                if spans.iter().any(|(_, s, e)| *s <= o.after && o.before <= *e) {
                    overlapped = true;
                }
                let lo = j_min.max(prev_j);
                let found = (lo..=j_max).find(|j| model_fps[*j as usize] == o.fp);
                match found {
                    Some(j) => prev_j = j,
                    None => {
                        let anywhere: Vec<usize> = model_fps.iter().enumerate().filter(|(_, m)| **m == o.fp).map(|(j, _)| j).collect();
                        let sig = if anywhere.is_empty() {
                            "reload_saw_no_commit_state"
                        } else if anywhere.iter().any(|j| (*j as u64) < lo) {
                            "reload_stale_or_went_back"
                        } else {
                            "reload_saw_future_or_uncommitted"
                        };
                        fail!(
                            sig,
                            "reader {ri} ({:?}) reload #{oi}: fingerprint matches commits {anywhere:?}; allowed range c{lo}..=c{j_max} (previous c{prev_j}, completed before reload c{j_min})",
                            c.readers[ri]
                        );
                    }
                }
            }
            for (hs, hfp, taken, hcnt) in &out.held {
                let (x, c2) = fingerprint(hs, &f).map_err(|fl| Failure::new(format!("held_searcher_error_after_gc:{}", fl.sig), fl.detail))?;
                ensure!(x == *hfp && c2 == *hcnt, "held_searcher_changed_after_gc", "reader {ri}: fingerprint {hfp}->{x}, count {hcnt}->{c2}");
                let later_commits = spans.iter().filter(|(_, start, _)| *start > *taken).count();
                if later_commits >= 2 {
                    outlived = true;
                }
            }
        }
        let gate_hit = match &sim {
            Some(sd) => gates.iter().flatten().any(|g| sd.gate_reached(*g)),
            None => false,
        };
        cx.evals(reloads);
        cx.count("reloads", reloads);
        cx.label_if(overlapped, "reload_overlapped_commit");
        cx.label_if(outlived, "held_outlived_2_commits");
        cx.label_if(gate_hit, "gate_reached");
        cx.label_if(c.readers.iter().any(|r| r.second_index), "second_index");
        cx.label(&format!("dir:{:?}", c.cfg.dir));
        cx.label_if(env.stats.merges > 0, "merge");
        cx.label_if(env.stats.gc > 0, "gc");
        if overlapped || outlived {
            cx.nontrivial(fp(c));
        }
        cx.sample(|| json!({"sub": "readers", "cfg": c.cfg, "ops": c.ops, "readers": c.readers, "reloads": reloads}));
        Ok(())
    }
}
