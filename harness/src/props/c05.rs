//! C05 — searchers are immutable snapshots; readers only ever see whole commits.
use std::sync::atomic::{AtomicBool, AtomicU64, Ordering};
use std::sync::Arc;
use std::time::Duration;

use proptest::prelude::*;
use serde::{Deserialize, Serialize};
use serde_json::json;
use tantivy::collector::Count;
use tantivy::query::AllQuery;
use tantivy::{Index, IndexReader, ReloadPolicy, Searcher};

use crate::engine::*;
use crate::hist::*;
use crate::simdir::{GateSpec, K};
use crate::{ensure, fail};

pub fn def() -> PropDef {
    PropDef {
        id: "C05",
        level: "exploration",
        rule: "A writer thread runs a generated history (adds, deletes, commits tagged c<n>, aborts, rollbacks, explicit and policy merges, gc, writer drop/reopen) on SimDir or MmapDirectory while 1-3 reader threads - on the same Index and on a second Index::open of the same directory - loop reload(); fingerprint(searcher) and keep a generated subset of searchers alive to re-fingerprint them later (also after gc and after the writer is gone). SimDir gates hold a reloading reader at its n-th segment-file open for a bounded time while the writer continues. Oracle: every fingerprint taken after a reload equals the model of exactly one commit j with j >= the last commit completed before the reload began, j <= the last commit started before the observation ended, and j non-decreasing per reader; a held searcher's fingerprint, count and documents never change; no reload or search returns an error. Half of the readers register a Warmer and a second thread polls searcher() of the same reader during the reloads: the state the warmer was shown for a generation is the state every holder of that generation gets, and a generation's (segment, delete opstamp) map is the one of the searcher's segment readers. Non-trivial = a reload overlapped a commit call (logical clock intervals) or a held searcher outlived >= 2 commits; distinct by hash(case). restart_during_merge: a merge of the first writer is held at a generated storage operation (SimDir gate) while the writer is dropped and a new writer adds, deletes and commits; readers (same Index or a second Index::open) must show the newest commit before the old merge is released, after it finished, through a fresh handle, and after one more commit. handover: two parties on two Index instances of one directory take turns being the writer - each one commits its documents and drops its writer while the other one is already spinning on writer creation - and a reader of a third instance reloads after every commit: the documents of every earlier commit stay visible (a writer that starts from a segment list read before it got the lock would publish an older state).",
        assumptions: vec![
            "interleavings are those the OS produces plus bounded holds of readers at storage operations (gates); timeouts only steer, they never decide",
            "fingerprint = hash over (uid, group, body, num) of all live documents read through store and fast fields",
        ],
        subs: vec![Box::new(Readers), Box::new(RestartDuringMerge), Box::new(Handover)],
    }
}

#[derive(Clone, Debug, Serialize, Deserialize)]
pub struct ReaderSpec {
    pub second_index: bool,
    /// keep every k-th searcher alive (1..)
    pub hold_every: u8,
    /// hold this reader at its n-th segment-file open (SimDir only)
    pub gate_nth: Option<u8>,
    /// register a Warmer that fingerprints every searcher generation it is given
    #[serde(default)]
    pub warmer: bool,
    /// ReloadPolicy::OnCommitWithDelay: the reader is reloaded by the directory's watcher, the thread only observes
    #[serde(default)]
    pub auto: bool,
}
#[derive(Clone, Debug, Serialize, Deserialize)]
pub struct ReadersCase {
    pub cfg: HistCfg,
    pub ops: Vec<Op>,
    pub readers: Vec<ReaderSpec>,
    /// SimDir only: every attempt of the segment updater to create the meta lock file fails with an I/O error (the
    /// garbage collections of the history cannot take the lock: they have to give up, not to go on without it)
    #[serde(default)]
    pub gc_lock_fault: bool,
    /// the writer thread pauses this many microseconds after every operation (steering only: gives the readers many
    /// reloads - and lock hand-overs between them - per commit, merge and collection)
    #[serde(default)]
    pub pace_us: u16,
}

struct Obs {
    before: u64,
    after: u64,
    fp: u64,
}
struct ReaderOut {
    obs: Vec<Obs>,
    held: Vec<(Searcher, u64, u64, usize)>, // searcher, fingerprint, tick when taken, count
    error: Option<Failure>,
    reader: Option<IndexReader>,
    /// number of generations the reader's warmer was shown
    warmed: usize,
    /// searchers obtained before any warm call for their generation had returned (evidence only)
    unwarmed: usize,
    /// searchers that were only kept, never searched, while the history ran: queried for the first time after the
    /// final garbage collection
    untouched: Vec<Searcher>,
}

fn fingerprint(s: &Searcher, f: &Fields) -> Result<(u64, usize), Failure> {
    let fpv = searcher_fingerprint(s, f)?;
    let n = s.search(&AllQuery, &Count).or_fail("search_failed")?;
    Ok((fpv, n))
}

/// A `Warmer` that records what it saw: generation id -> (fingerprint, count), and the live sets it was told to keep.
#[derive(Default)]
struct RecWarmer {
    warmed: std::sync::Mutex<std::collections::HashMap<u64, Result<(u64, usize), String>>>,
    gc_live: std::sync::Mutex<Vec<Vec<u64>>>,
}
impl tantivy::Warmer for RecWarmer {
    fn warm(&self, searcher: &Searcher) -> tantivy::Result<()> {
        let (_s, f) = hist_schema();
        let r = fingerprint(searcher, &f).map_err(|fl| format!("{}: {}", fl.sig, fl.detail));
        self.warmed.lock().unwrap().insert(searcher.generation().generation_id(), r);
        Ok(())
    }
    fn garbage_collect(&self, live_generations: &[&tantivy::SearcherGeneration]) {
        self.gc_live.lock().unwrap().push(live_generations.iter().map(|g| g.generation_id()).collect());
    }
}

/// The inverted index of a snapshot agrees with its stored fields: for every word the term query counts the live
/// documents whose stored body holds the word, and a phrase query of two words counts those holding them side by side.
fn postings_agree_with_store(s: &Searcher, f: &Fields) -> CaseResult {
    let mut bodies: Vec<Vec<String>> = vec![];
    for seg in s.segment_readers().iter() {
        let store = seg.get_store_reader(1).or_fail("store_reader_failed")?;
        for doc in seg.doc_ids_alive() {
            let d: tantivy::TantivyDocument = store.get(doc).or_fail("store_get_failed")?;
            let body = d.get_first(f.body).and_then(|v| tantivy::schema::document::Value::as_str(&v).map(|s| s.to_string())).unwrap_or_default();
            bodies.push(body.split_whitespace().map(|w| w.to_string()).collect());
        }
    }
    for w in 0..NUM_WORDS {
        let word = format!("w{w}");
        let q = tantivy::query::TermQuery::new(tantivy::Term::from_field_text(f.body, &word), tantivy::schema::IndexRecordOption::WithFreqsAndPositions);
        let n = s.search(&q, &Count).or_fail("term_query_failed")?;
        let exp = bodies.iter().filter(|b| b.contains(&word)).count();
        ensure!(n == exp, "term_query_disagrees_with_stored_fields", "term {word}: {n} documents, the stored bodies of the snapshot hold it in {exp}");
        let next = format!("w{}", (w + 1) % NUM_WORDS);
        let pq = tantivy::query::PhraseQuery::new(vec![tantivy::Term::from_field_text(f.body, &word), tantivy::Term::from_field_text(f.body, &next)]);
        let n = s.search(&pq, &Count).or_fail("phrase_query_failed")?;
        let exp = bodies.iter().filter(|b| b.windows(2).any(|p| p[0] == word && p[1] == next)).count();
        ensure!(n == exp, "phrase_query_disagrees_with_stored_fields", "phrase \"{word} {next}\": {n} documents, the stored bodies of the snapshot hold it in {exp}");
    }
    Ok(())
}

pub struct Readers;
impl Sub for Readers {
    type Case = ReadersCase;
    fn name(&self) -> &'static str {
        "readers"
    }
    fn cases(&self, tier: Tier) -> u32 {
        tier.pick(640, 8000)
    }
    fn shards(&self, _t: Tier) -> usize {
        8
    }
    fn max_shrink_iters(&self) -> u32 {
        200
    }
    fn strategy(&self, _tier: Tier) -> BoxedStrategy<ReadersCase> {
        static DIRS: [DirKind; 3] = [DirKind::Sim, DirKind::Sim, DirKind::Mmap];
        let cfg = cfg_strategy(&DIRS).prop_map(|mut c| {
            c.threads = c.threads.min(3);
            c
        });
        let op = prop_oneof![
            12 => add_strategy().prop_map(Op::Add),
            3 => any::<u16>().prop_map(Op::DelUid),
            1 => (0..NUM_GROUPS).prop_map(Op::DelGroup),
            8 => Just(Op::Commit),
            1 => Just(Op::PrepareAbort),
            1 => Just(Op::Rollback),
            2 => any::<u16>().prop_map(Op::Merge),
            1 => Just(Op::WaitMerges),
            1 => Just(Op::Reopen),
            2 => Just(Op::Gc),
        ];
        let reader = (any::<bool>(), 1u8..4, prop::option::weighted(0.6, 0u8..12), any::<bool>(), prop::bool::weighted(0.3)).prop_map(|(second_index, hold_every, gate_nth, warmer, auto)| ReaderSpec { second_index, hold_every, gate_nth, warmer, auto });
        (cfg, prop::collection::vec(op, 6..50), prop::collection::vec(reader, 1..4), prop::bool::weighted(0.2), prop_oneof![2 => Just(0u16), 1 => 200u16..1500, 1 => 1500u16..6000])
            .prop_map(|(cfg, ops, readers, gc_lock_fault, pace_us)| {
                let gc_lock_fault = gc_lock_fault && cfg.dir == DirKind::Sim;
                // (an explicit collection reports the lock error to its caller: left out of these histories)
                let ops = if gc_lock_fault { ops.into_iter().filter(|o| !matches!(o, Op::Gc)).collect() } else { ops };
                ReadersCase { cfg, ops, readers, gc_lock_fault, pace_us }
            })
            .boxed()
    }
    fn mandatory_labels(&self, _t: Tier) -> Vec<&'static str> {
        vec!["reload_overlapped_commit", "held_outlived_2_commits", "gate_reached", "second_index", "dir:Mmap", "merge", "gc", "warmer", "warmed_generations>=3", "reload_policy:on_commit", "watcher_reload_advanced_between_commits", "watcher_reload_reached_last_commit", "gc_could_not_take_meta_lock", "searcher_first_queried_after_final_gc", "mmap_reader_held_inside_meta_lock", "mmap_two_readers_held_inside_meta_lock"]
    }
    fn run(&self, c: &ReadersCase, cx: &Ctx) -> CaseResult {
        let mut env = Env::new(c.cfg.clone())?;
        env.check_quiescence = false;
        env.verify_each_commit = false;
        env.skip_dirty_delete_all = true;
        let clock = Arc::new(AtomicU64::new(1));
        let stop = Arc::new(AtomicBool::new(false));
        let (_schema, _f) = hist_schema();
        // commit spans in logical time: (j, start, end)
        let mut spans: Vec<(u64, u64, u64)> = vec![];
        let sim = match &env.dir {
            DirHandle::Sim(sd) => Some(sd.clone()),
            _ => None,
        };
        let second_index: Option<Index> = if c.readers.iter().any(|r| r.second_index) {
            Some(match &env.dir {
                DirHandle::Sim(sd) => Index::open(sd.clone()),
                DirHandle::Mmap(p) => Index::open(tantivy::directory::MmapDirectory::open(p).or_fail("INFRA:mmap")?),
                DirHandle::Ram(rd) => Index::open(rd.clone()),
            }
            .or_fail("second_index_open_failed")?)
        } else {
            None
        };
        let mut gates: Vec<Option<usize>> = vec![];
        for (i, r) in c.readers.iter().enumerate() {
            gates.push(match (&sim, r.gate_nth) {
                (Some(sd), Some(n)) => Some(sd.add_gate(GateSpec {
                    thread: format!("reader-{i}"),
                    kind: Some(K::OpenRead),
                    path_suffix: String::new(),
                    nth: n as usize,
                    max_hold: Duration::from_millis(120),
                })),
                _ => None,
            });
        }
        if c.gc_lock_fault {
            if let Some(sd) = &sim {
                sd.set_faults(vec![crate::simdir::FaultRule { kinds: vec![K::Create], thread: "segment_updater".into(), path_suffix: ".tantivy-meta.lock".into(), nth: 0, permanent: true, locks: true }]);
            }
        }
        let first_index = env.index.clone();
        let mut hold_counters: Vec<Arc<AtomicU64>> = vec![];
        let mut history_result: CaseResult = Ok(());
        let outs: Vec<ReaderOut> = std::thread::scope(|scope| {
            let mut handles = vec![];
            for (i, r) in c.readers.iter().enumerate() {
                let index = if r.second_index {
                    match &env.dir {
                        // on the real directory every such reader gets its own Index over its own MmapDirectory, behind a
                        // HoldDir that holds the reader now and then right after it resolved meta.json (inside the section
                        // protected by the flock-based meta lock) so that the writer's garbage collection, and the other
                        // readers, really queue up on that lock
                        DirHandle::Mmap(p) => {
                            let every = r.gate_nth.map(|n| (n % 3) as u64 + 1).unwrap_or(0);
                            let md = match tantivy::directory::MmapDirectory::open(p) {
                                Ok(md) => md,
                                Err(_) => return vec![ReaderOut { obs: vec![], held: vec![], error: Some(Failure::new("INFRA:mmap", "")), reader: None, warmed: 0, unwarmed: 0, untouched: vec![] }],
                            };
                            let hd = crate::holddir::HoldDir::new(md, "reader-", every, Duration::from_millis(12));
                            hold_counters.push(hd.holds_done.clone());
                            match Index::open(hd) {
                                Ok(ix) => ix,
                                Err(e) => return vec![ReaderOut { obs: vec![], held: vec![], error: Some(Failure::new("second_index_open_failed", format!("{e:?}"))), reader: None, warmed: 0, unwarmed: 0, untouched: vec![] }],
                            }
                        }
                        _ => second_index.clone().unwrap(),
                    }
                } else {
                    first_index.clone()
                };
                let clock = clock.clone();
                let stop = stop.clone();
                let hold_every = r.hold_every.max(1) as usize;
                let use_warmer = r.warmer;
                let auto = r.auto;
                handles.push(
                    std::thread::Builder::new()
                        .name(format!("reader-{i}"))
                        .spawn_scoped(scope, move || {
                            let (_s, f) = hist_schema();
                            let mut out = ReaderOut { obs: vec![], held: vec![], error: None, reader: None, warmed: 0, unwarmed: 0, untouched: vec![] };
                            let warmer: Option<Arc<RecWarmer>> = if use_warmer { Some(Arc::new(RecWarmer::default())) } else { None };
                            let mut builder = index.reader_builder().reload_policy(if auto { ReloadPolicy::OnCommitWithDelay } else { ReloadPolicy::Manual });
                            if let Some(w) = &warmer {
                                let dynw: Arc<dyn tantivy::Warmer> = w.clone();
                                builder = builder.warmers(vec![Arc::downgrade(&dynw)]);
                            }
                            let reader: IndexReader = match builder.try_into() {
                                Ok(r) => r,
                                Err(e) => {
                                    out.error = Some(Failure::new("reader_open_failed", format!("{e:?}")));
                                    return out;
                                }
                            };
                            // a second thread polls searcher() of the same reader while this one reloads: whatever it gets
                            // must already have been warmed
                            let poll_stop = Arc::new(AtomicBool::new(false));
                            let poller = warmer.clone().map(|w| {
                                let r2 = reader.clone();
                                let stop2 = poll_stop.clone();
                                std::thread::Builder::new()
                                    .name(format!("reader-poll-{i}"))
                                    .spawn(move || -> Option<Failure> {
                                        let (_s, f) = hist_schema();
                                        let mut k = 0u64;
                                        let mut last_gid = 0u64;
                                        while !stop2.load(Ordering::SeqCst) && k < 200_000 {
                                            let s = r2.searcher();
                                            let gid = s.generation().generation_id();
                                            if gid != last_gid || k == 0 {
                                                let seen = w.warmed.lock().unwrap().get(&gid).cloned();
                                                match seen {
                                                    // a generation that is searchable before its warm call returned is not
                                                    // excluded by the property: nothing to compare yet
                                                    None => {}
                                                    Some(Ok((wfp, wcnt))) => match fingerprint(&s, &f) {
                                                        Ok((x, c)) if x == wfp && c == wcnt => {}
                                                        Ok((x, c)) => return Some(Failure::new("warmer_saw_other_state", format!("poller: generation {gid}: warmer saw {wfp} / {wcnt}, searcher gives {x} / {c}"))),
                                                        Err(fl) => return Some(Failure::new(format!("reader_search:{}", fl.sig), format!("poller: {}", fl.detail))),
                                                    },
                                                    Some(Err(_)) => {}
                                                }
                                            }
                                            last_gid = gid;
                                            k += 1;
                                            std::thread::yield_now();
                                        }
                                        None
                                    })
                                    .expect("spawn poller")
                            });
                            let mut prev_gen: Option<(u64, u64)> = None;
                            let mut after_stop = 0u32;
                            let mut n = 0usize;
                            loop {
                                let finishing = stop.load(Ordering::SeqCst);
                                let before = clock.fetch_add(1, Ordering::SeqCst);
                                if auto {
                                    // reloaded by the watcher; after the history ended give it a moment to catch up
                                    std::thread::sleep(Duration::from_micros(if finishing { 3000 } else { 300 }));
                                    if finishing {
                                        after_stop += 1;
                                    }
                                } else if let Err(e) = reader.reload() {
                                    out.error = Some(Failure::new("reload_failed", format!("reload #{n}: {e:?}")));
                                    break;
                                }
                                let s = reader.searcher();
                                if n % 5 == 3 && out.untouched.len() < 6 && !auto {
                                    // kept without a single access: its first query comes after everything else
                                    out.untouched.push(s);
                                    n += 1;
                                    if finishing {
                                        break;
                                    }
                                    continue;
                                }
                                let (fpv, cnt) = match fingerprint(&s, &f) {
                                    Ok(x) => x,
                                    Err(fl) => {
                                        out.error = Some(Failure::new(format!("reader_search:{}", fl.sig), format!("reload #{n}: {}", fl.detail)));
                                        break;
                                    }
                                };
                                // generations: a new one per reload, never going back; the generation's segment map is the
                                // searcher's; with a warmer: the generation was warmed before it was published, and the
                                // warmer was shown the very state readers get
                                {
                                    let g = s.generation();
                                    let gid = g.generation_id();
                                    if let Some((pg, pfp)) = prev_gen {
                                        // the same generation id names the same snapshot
                                        if gid == pg && pfp != fpv {
                                            out.error = Some(Failure::new("generation_id_reused_for_other_state", format!("reload #{n}: generation {gid} had fingerprint {pfp}, now {fpv}")));
                                            break;
                                        }
                                    }
                                    prev_gen = Some((gid, fpv));
                                    let from_readers: std::collections::BTreeMap<_, _> = s.segment_readers().iter().map(|r| (r.segment_id(), r.delete_opstamp())).collect();
                                    if &from_readers != g.segments() {
                                        out.error = Some(Failure::new("generation_segments_differ", format!("reload #{n}: generation {:?} vs segment readers {from_readers:?}", g.segments())));
                                        break;
                                    }
                                    if let Some(w) = &warmer {
                                        let seen = w.warmed.lock().unwrap().get(&gid).cloned();
                                        match seen {
                                            None => {
                                                // (not demanded by the property: only counted)
                                                out.unwarmed += 1;
                                            }
                                            Some(Err(e)) => {
                                                out.error = Some(Failure::new("warmer_search_failed", format!("reload #{n}: generation {gid}: {e}")));
                                                break;
                                            }
                                            Some(Ok((wfp, wcnt))) => {
                                                if wfp != fpv || wcnt != cnt {
                                                    out.error = Some(Failure::new("warmer_saw_other_state", format!("reload #{n}: generation {gid}: warmer saw fingerprint {wfp} / {wcnt} docs, readers get {fpv} / {cnt}")));
                                                    break;
                                                }
                                            }
                                        }
                                        out.warmed = w.warmed.lock().unwrap().len();
                                    }
                                }
                                let after = clock.fetch_add(1, Ordering::SeqCst);
                                out.obs.push(Obs { before, after, fp: fpv });
                                if n % hold_every == 0 && out.held.len() < 8 {
                                    out.held.push((s.clone(), fpv, after, cnt));
                                }
                                // re-check one held searcher: it must not have changed
                                if !out.held.is_empty() {
                                    let k = n % out.held.len();
                                    let (hs, hfp, _, hcnt) = &out.held[k];
                                    match fingerprint(hs, &f) {
                                        Ok((x, c2)) if x == *hfp && c2 == *hcnt => {}
                                        Ok((x, c2)) => {
                                            out.error = Some(Failure::new("held_searcher_changed", format!("fingerprint {hfp}->{x}, count {hcnt}->{c2}")));
                                            break;
                                        }
                                        Err(fl) => {
                                            out.error = Some(Failure::new(format!("held_searcher_error:{}", fl.sig), fl.detail));
                                            break;
                                        }
                                    }
                                }
                                n += 1;
                                if (finishing && (!auto || after_stop >= 40)) || n > 4000 {
                                    break;
                                }
                                std::thread::yield_now();
                            }
                            poll_stop.store(true, Ordering::SeqCst);
                            if let Some(h) = poller {
                                if let Ok(Some(fl)) = h.join() {
                                    if out.error.is_none() {
                                        out.error = Some(fl);
                                    }
                                }
                            }
                            out.reader = Some(reader);
                            out
                        })
                        .expect("spawn reader"),
                );
            }
            // the writer's history runs on this thread
            for op in c.ops.iter().chain(std::iter::once(&Op::Commit)) {
                let is_commit = matches!(op, Op::Commit | Op::PrepareCommit);
                let t0 = clock.fetch_add(1, Ordering::SeqCst);
                let before = env.commits;
                if let Err(f) = env.apply(op, cx) {
                    history_result = Err(f);
                    break;
                }
                let t1 = clock.fetch_add(1, Ordering::SeqCst);
                if is_commit && env.commits > before {
                    spans.push((env.commits, t0, t1));
                }
                if c.pace_us > 0 {
                    std::thread::sleep(Duration::from_micros(c.pace_us as u64));
                }
            }
            // let every reader do at least one more reload after the last commit, then stop
            stop.store(true, Ordering::SeqCst);
            if let Some(sd) = &sim {
                sd.release_all();
            }
            handles.into_iter().map(|h| h.join().unwrap_or_else(|_| ReaderOut { obs: vec![], held: vec![], error: Some(Failure::new("panic:reader", "reader thread panicked")), reader: None, warmed: 0, unwarmed: 0, untouched: vec![] })).collect()
        });
        let gc_lock_faults_fired = sim.as_ref().map(|sd| sd.faults_fired()).unwrap_or(0);
        if let Some(sd) = &sim {
            sd.clear_faults();
        }
        cx.label_if(c.gc_lock_fault && gc_lock_faults_fired > 0, "gc_could_not_take_meta_lock");
        history_result?;
        // writer goes away, files get collected: held searchers must stay intact
        if let Some(w) = env.writer.take() {
            w.wait_merging_threads().or_fail("wait_merging_threads_failed")?;
        }
        env.new_writer()?;
        env.writer.as_ref().unwrap().garbage_collect_files().wait().or_fail("gc_failed")?;
        drop(env.writer.take());
        let model_fps: Vec<u64> = env.models.iter().map(model_fingerprint).collect();
        let (_s, f) = hist_schema();
        let mut overlapped = false;
        let mut untouched_checked = 0u32;
        let mut auto_advanced = false;
        let mut auto_caught_up = false;
        let mut outlived = false;
        let mut reloads = 0u64;
        for (ri, out) in outs.iter().enumerate() {
            if let Some(e) = &out.error {
                return Err(Failure::new(e.sig.clone(), format!("reader {ri} ({:?}): {}", c.readers[ri], e.detail)));
            }
            let mut prev_j = 0u64;
            for (oi, o) in out.obs.iter().enumerate() {
                reloads += 1;
                // (a watcher-driven reader has no reload call whose start bounds the commit from below: only monotonicity)
                let j_min = if c.readers[ri].auto { 0 } else { spans.iter().filter(|(_, _, end)| *end <= o.before).map(|(j, _, _)| *j).max().unwrap_or(0) };
                let j_max = spans.iter().filter(|(_, start, _)| *start <= o.after).map(|(j, _, _)| *j).max().unwrap_or(0);
                if spans.iter().any(|(_, s, e)| *s <= o.after && o.before <= *e) {
                    overlapped = true;
                }
                let lo = j_min.max(prev_j);
                let found = (lo..=j_max).find(|j| model_fps[*j as usize] == o.fp);
                match found {
                    Some(j) => {
                        if c.readers[ri].auto && j > prev_j && prev_j > 0 {
                            auto_advanced = true;
                        }
                        if c.readers[ri].auto && oi + 1 == out.obs.len() && j == env.commits {
                            auto_caught_up = true;
                        }
                        prev_j = j
                    }
                    None => {
                        let anywhere: Vec<usize> = model_fps.iter().enumerate().filter(|(_, m)| **m == o.fp).map(|(j, _)| j).collect();
                        let sig = if anywhere.is_empty() {
                            "reload_saw_no_commit_state"
                        } else if anywhere.iter().any(|j| (*j as u64) < lo) {
                            "reload_stale_or_went_back"
                        } else {
                            "reload_saw_future_or_uncommitted"
                        };
                        fail!(
                            sig,
                            "reader {ri} ({:?}) reload #{oi}: fingerprint matches commits {anywhere:?}; allowed range c{lo}..=c{j_max} (previous c{prev_j}, completed before reload c{j_min})",
                            c.readers[ri]
                        );
                    }
                }
            }
            for (k, us) in out.untouched.iter().enumerate() {
                postings_agree_with_store(us, &f).map_err(|fl| Failure::new(format!("untouched_held_searcher_after_gc:{}", fl.sig), format!("reader {ri} ({:?}), searcher #{k} kept unused during the history: {}", c.readers[ri], fl.detail)))?;
                untouched_checked += 1;
            }
            for (hs, hfp, taken, hcnt) in &out.held {
                postings_agree_with_store(hs, &f).map_err(|fl| Failure::new(format!("held_searcher_after_gc:{}", fl.sig), format!("reader {ri}: {}", fl.detail)))?;
                let (x, c2) = fingerprint(hs, &f).map_err(|fl| Failure::new(format!("held_searcher_error_after_gc:{}", fl.sig), fl.detail))?;
                ensure!(x == *hfp && c2 == *hcnt, "held_searcher_changed_after_gc", "reader {ri}: fingerprint {hfp}->{x}, count {hcnt}->{c2}");
                let later_commits = spans.iter().filter(|(_, start, _)| *start > *taken).count();
                if later_commits >= 2 {
                    outlived = true;
                }
            }
        }
        let gate_hit = match &sim {
            Some(sd) => gates.iter().flatten().any(|g| sd.gate_reached(*g)),
            None => false,
        };
        cx.evals(reloads);
        cx.count("reloads", reloads);
        cx.label_if(overlapped, "reload_overlapped_commit");
        cx.label_if(outlived, "held_outlived_2_commits");
        cx.label_if(gate_hit, "gate_reached");
        cx.label_if(c.readers.iter().any(|r| r.second_index), "second_index");
        cx.label(&format!("dir:{:?}", c.cfg.dir));
        cx.label_if(env.stats.merges > 0, "merge");
        cx.label_if(env.stats.gc > 0, "gc");
        cx.label_if(c.readers.iter().any(|r| r.warmer), "warmer");
        cx.label_if(untouched_checked > 0, "searcher_first_queried_after_final_gc");
        cx.label_if(hold_counters.iter().any(|h| h.load(Ordering::SeqCst) > 0), "mmap_reader_held_inside_meta_lock");
        cx.label_if(hold_counters.iter().filter(|h| h.load(Ordering::SeqCst) > 0).count() >= 2, "mmap_two_readers_held_inside_meta_lock");
        cx.label_if(c.readers.iter().any(|r| r.auto), "reload_policy:on_commit");
        cx.label_if(auto_advanced, "watcher_reload_advanced_between_commits");
        cx.label_if(auto_caught_up, "watcher_reload_reached_last_commit");
        cx.label_if(outs.iter().any(|o| o.warmed >= 3), "warmed_generations>=3");
        cx.count("searchers_seen_before_their_warm_call_returned", outs.iter().map(|o| o.unwarmed as u64).sum());
        if overlapped || outlived {
            cx.nontrivial(fp(c));
        }
        cx.sample(|| json!({"sub": "readers", "cfg": c.cfg, "ops": c.ops, "readers": c.readers, "reloads": reloads}));
        Ok(())
    }
}

// ------------------------------------------------------------------------------------------------
/// A writer is dropped (or consumed by a rollback / restart) while one of its merges is still running; a new writer
/// commits; then the old merge finishes.  Whatever becomes of that merge, a reload never moves back: before the old
/// merge is released, after it has finished, and after one more commit, readers on the same `Index` and on a second
/// `Index::open` see exactly the newest commit.  The merge thread is held at a generated storage operation by a SimDir
/// gate, so the overlap does not depend on timing.
#[derive(Clone, Debug, Serialize, Deserialize)]
pub struct RestartCase {
    pub cfg: HistCfg,
    pub prefix: Vec<Op>,
    /// which storage operation of the merge thread to hold at: 0 create, 1 append, 2 terminate
    pub gate_kind: u8,
    pub gate_nth: u8,
    /// operations of the new writer while the old merge is held (a commit is appended)
    pub during: Vec<Op>,
    pub second_index: bool,
}
pub struct RestartDuringMerge;
impl Sub for RestartDuringMerge {
    type Case = RestartCase;
    fn name(&self) -> &'static str {
        "restart_during_merge"
    }
    fn cases(&self, tier: Tier) -> u32 {
        tier.pick(400, 6000)
    }
    fn shards(&self, _t: Tier) -> usize {
        12
    }
    fn max_shrink_iters(&self) -> u32 {
        200
    }
    fn strategy(&self, _tier: Tier) -> BoxedStrategy<RestartCase> {
        static DIRS: [DirKind; 1] = [DirKind::Sim];
        let cfg = cfg_strategy(&DIRS).prop_map(|mut c| {
            c.threads = c.threads.min(2);
            c.policy = Policy::NoMerge;
            c
        });
        let prefix_op = prop_oneof![8 => add_strategy().prop_map(Op::Add), 1 => any::<u16>().prop_map(Op::DelUid), 3 => Just(Op::Commit)];
        let during_op = prop_oneof![5 => add_strategy().prop_map(Op::Add), 2 => any::<u16>().prop_map(Op::DelUid), 1 => (0..NUM_GROUPS).prop_map(Op::DelGroup), 2 => Just(Op::Commit)];
        (cfg, prop::collection::vec(prefix_op, 4..24), 0u8..3, 0u8..10, prop::collection::vec(during_op, 1..8), any::<bool>())
            .prop_map(|(cfg, prefix, gate_kind, gate_nth, during, second_index)| RestartCase { cfg, prefix, gate_kind, gate_nth, during, second_index })
            .boxed()
    }
    fn mandatory_labels(&self, _t: Tier) -> Vec<&'static str> {
        vec!["gate_reached", "commit_while_old_merge_held", "second_index", "old_merge_failed_or_discarded"]
    }
    fn run(&self, c: &RestartCase, cx: &Ctx) -> CaseResult {
        let mut env = Env::new(c.cfg.clone())?;
        env.check_quiescence = false;
        env.skip_dirty_delete_all = true;
        let DirHandle::Sim(sd) = &env.dir else { return Err(Failure::new("INFRA:not_sim", "")) };
        let sd = sd.clone();
        sd.set_logging(false, false);
        for op in &c.prefix {
            env.apply(op, cx)?;
        }
        env.apply(&Op::Commit, cx)?;
        let ids = env.index.searchable_segment_ids().or_fail("segment_ids_failed")?;
        if ids.len() < 2 {
            cx.label("fewer_than_2_segments");
            return Ok(());
        }
        let (_s, f) = hist_schema();
        let observer: Index = if c.second_index { Index::open(sd.clone()).or_fail("second_index_open_failed")? } else { env.index.clone() };
        let reader: IndexReader = observer.reader_builder().reload_policy(ReloadPolicy::Manual).try_into().or_fail("reader_open_failed")?;
        let kind = match c.gate_kind {
            0 => K::Create,
            1 => K::Append,
            _ => K::Terminate,
        };
        let gate = sd.add_gate(GateSpec { thread: "merge_thread".into(), kind: Some(kind), path_suffix: String::new(), nth: c.gate_nth as usize, max_hold: Duration::from_millis(500) });
        let fut = env.writer.as_mut().unwrap().merge(&ids);
        let reached = sd.wait_reached(gate, Duration::from_millis(300));
        // the writer goes away while its merge is held; a new writer takes over
        env.apply(&Op::Reopen, cx)?;
        for op in &c.during {
            env.apply(op, cx)?;
        }
        env.apply(&Op::Commit, cx)?;
        let newest = model_fingerprint(&env.committed);
        let look = |when: &str| -> CaseResult {
            reader.reload().or_fail("reload_failed")?;
            let got = searcher_fingerprint(&reader.searcher(), &f)?;
            if got != newest {
                let which: Vec<usize> = env.models.iter().enumerate().filter(|(_, m)| model_fingerprint(m) == got).map(|(j, _)| j).collect();
                fail!("reload_stale_or_went_back:after_writer_restart", "{when}: the reload shows the state of commits {which:?}, the newest commit is c{}", env.commits);
            }
            Ok(())
        };
        look("new writer committed, old merge still held")?;
        sd.release(gate);
        let old_merge = fut.wait().map(|_| ()).map_err(|_| ());
        look("old merge finished")?;
        // a fresh handle opened now agrees
        {
            let fresh = Index::open(sd.clone()).or_fail("index_open_failed")?;
            let r2: IndexReader = fresh.reader_builder().reload_policy(ReloadPolicy::Manual).try_into().or_fail("reader_open_failed")?;
            let got = searcher_fingerprint(&r2.searcher(), &f)?;
            ensure!(got == newest, "reload_stale_or_went_back:after_writer_restart", "a fresh Index::open after the old merge finished does not show the newest commit c{}", env.commits);
        }
        env.apply(&Op::Add(AddSpec { grp: 1, words: vec![1], num: 3 }), cx)?;
        env.apply(&Op::Commit, cx)?;
        let newest2 = model_fingerprint(&env.committed);
        reader.reload().or_fail("reload_failed")?;
        ensure!(searcher_fingerprint(&reader.searcher(), &f)? == newest2, "reload_stale_or_went_back:after_writer_restart", "after one more commit the reload does not show c{}", env.commits);
        cx.evals(4);
        cx.label_if(reached, "gate_reached");
        cx.label_if(reached, "commit_while_old_merge_held");
        cx.label_if(c.second_index, "second_index");
        cx.label_if(old_merge.is_err(), "old_merge_failed_or_discarded");
        cx.label_if(old_merge.is_ok(), "old_merge_reported_ok");
        if reached {
            cx.nontrivial(fp(c));
        }
        cx.sample(|| json!({"sub": "restart_during_merge", "cfg": c.cfg, "prefix": c.prefix.len(), "gate": [c.gate_kind, c.gate_nth], "during": c.during, "second_index": c.second_index, "gate_reached": reached}));
        Ok(())
    }
}

// ------------------------------------------------------------------------------------------------
/// Writer hand-over between two Index instances: while party A commits its last documents and drops its writer, party B is
/// already spinning on `Index::writer`; whoever gets the lock next starts from the latest commit - the reader never moves
/// back, no committed document disappears.
#[derive(Clone, Debug, Serialize, Deserialize)]
pub struct HandoverCase {
    pub dir: DirKind,
    /// documents per turn
    pub turns: Vec<u8>,
    /// the party that waits starts spinning before (true) or after (false) the other one begins its last commit
    pub early_spin: bool,
}
pub struct Handover;
impl Sub for Handover {
    type Case = HandoverCase;
    fn name(&self) -> &'static str {
        "handover"
    }
    fn cases(&self, tier: Tier) -> u32 {
        tier.pick(240, 4000)
    }
    fn shards(&self, _t: Tier) -> usize {
        8
    }
    fn max_shrink_iters(&self) -> u32 {
        100
    }
    fn strategy(&self, _tier: Tier) -> BoxedStrategy<HandoverCase> {
        (prop_oneof![2 => Just(DirKind::Ram), 2 => Just(DirKind::Sim), 1 => Just(DirKind::Mmap)], prop::collection::vec(1u8..4, 3..10), any::<bool>()).prop_map(|(dir, turns, early_spin)| HandoverCase { dir, turns, early_spin }).boxed()
    }
    fn mandatory_labels(&self, _t: Tier) -> Vec<&'static str> {
        vec!["handover", "successor_was_refused_while_predecessor_alive", "dir:Mmap", "dir:Sim"]
    }
    fn run(&self, c: &HandoverCase, cx: &Ctx) -> CaseResult {
        let cfg = HistCfg { threads: 1, flush_every: 0, policy: Policy::NoMerge, sorted: None, dir: c.dir, tiny_blocks: false, short_writes: false, codec_switch: false, jitter: 0 };
        let mut env = Env::new(cfg)?;
        env.check_quiescence = false;
        drop(env.writer.take());
        let open = |env: &Env| -> Result<Index, Failure> {
            match &env.dir {
                DirHandle::Sim(sd) => Index::open(sd.clone()),
                DirHandle::Mmap(p) => Index::open(tantivy::directory::MmapDirectory::open(p).or_fail("INFRA:mmap")?),
                DirHandle::Ram(rd) => Index::open(rd.clone()),
            }
            .or_fail("index_open_failed")
        };
        let parties = [open(&env)?, open(&env)?];
        let observer = open(&env)?;
        let reader: IndexReader = observer.reader_builder().reload_policy(ReloadPolicy::Manual).try_into().or_fail("reader_open_failed")?;
        let (_s, f) = hist_schema();
        let mk = |uid: u64| {
            let mut d = tantivy::TantivyDocument::new();
            d.add_u64(f.uid, uid);
            d.add_text(f.grp, format!("g{}", uid % 4));
            d.add_text(f.body, format!("w{} w{}", uid % 6, (uid + 1) % 6));
            d.add_i64(f.num, uid as i64);
            d
        };
        let mut expected: Model = Model::new();
        let mut next_uid = 0u64;
        let mut refused = false;
        // party 0 starts as the writer
        let mut current: tantivy::IndexWriter = crate::util::writer(&parties[0], crate::util::WriterCfg::default()).or_fail("writer_failed")?;
        current.set_merge_policy(Box::new(tantivy::merge_policy::NoMergePolicy));
        for (turn, n) in c.turns.iter().enumerate() {
            let successor_index = parties[(turn + 1) % 2].clone();
            let go = Arc::new(AtomicBool::new(false));
            let go2 = go.clone();
            let spinner = std::thread::Builder::new()
                .name(format!("successor-{turn}"))
                .spawn(move || -> Result<(tantivy::IndexWriter, u32), String> {
                    while !go2.load(Ordering::SeqCst) {
                        std::thread::yield_now();
                    }
                    let mut refusals = 0u32;
                    for _ in 0..2_000_000u32 {
                        match crate::util::writer(&successor_index, crate::util::WriterCfg::default()) {
                            Ok(w) => return Ok((w, refusals)),
                            Err(tantivy::TantivyError::LockFailure(..)) => refusals += 1,
                            Err(e) => return Err(format!("{e:?}")),
                        }
                        std::thread::yield_now();
                    }
                    Err("the lock never became free".into())
                })
                .expect("spawn");
            if c.early_spin {
                go.store(true, Ordering::SeqCst);
            }
            for _ in 0..*n {
                current.add_document(mk(next_uid)).or_fail("add_failed")?;
                expected.insert(next_uid, DocRec { grp: (next_uid % 4) as u8, words: vec![(next_uid % 6) as u8, ((next_uid + 1) % 6) as u8], num: next_uid as i64 });
                next_uid += 1;
            }
            go.store(true, Ordering::SeqCst);
            current.commit().or_fail("commit_failed")?;
            drop(current);
            let (w, refusals) = spinner.join().map_err(|_| Failure::new("panic:successor", ""))?.map_err(|e| Failure::new("successor_writer_failed", e))?;
            refused |= refusals > 0;
            current = w;
            current.set_merge_policy(Box::new(tantivy::merge_policy::NoMergePolicy));
            // the successor publishes something of its own at once
            current.add_document(mk(next_uid)).or_fail("add_failed")?;
            expected.insert(next_uid, DocRec { grp: (next_uid % 4) as u8, words: vec![(next_uid % 6) as u8, ((next_uid + 1) % 6) as u8], num: next_uid as i64 });
            next_uid += 1;
            current.commit().or_fail("commit_failed")?;
            reader.reload().or_fail("reload_failed")?;
            verify_searcher(&reader.searcher(), &f, &expected, "after_handover").map_err(|fl| Failure::new(format!("handover:{}", fl.sig), format!("turn {turn}: after the successor's first commit: {}", fl.detail)))?;
            cx.evals(1);
        }
        drop(current);
        cx.label("handover");
        cx.label_if(refused, "successor_was_refused_while_predecessor_alive");
        cx.label(&format!("dir:{:?}", c.dir));
        if refused {
            cx.nontrivial(crate::engine::fnv(&serde_json::to_vec(c).unwrap()));
        }
        cx.sample(|| json!({"sub": "handover", "dir": c.dir, "turns": c.turns}));
        Ok(())
    }
}
