//! Loader for /verif/KNOWN_FINDINGS.txt (committed, never written at run time).
//!
//! Line formats (`#` starts a comment line):
//!   known: property=<id> key=<signature> probe=<path relative to /verif> :: <what fails>
//!   fixed: property=<id> <commit> <what failed>
//! `known` entries are open findings: their probe is replayed at the start of the property's check and a
//! failure carrying exactly that signature is tolerated (and counted) during generation.  `fixed` lines
//! suppress nothing.
use std::path::Path;

#[derive(Clone, Debug)]
pub struct KnownEntry {
    pub property: String,
    pub key: String,
    pub probe: String,
    pub what: String,
    /// extra attempts for schedule-dependent probes (`retries=<n>` token)
    pub retries: u32,
}

#[derive(Clone, Debug, Default)]
pub struct Known {
    entries: Vec<KnownEntry>,
    /// set for the replay of a known finding's probe: no exclusion of any kind may apply
    probe: bool,
}

impl Known {
    pub fn empty() -> Known {
        Known::default()
    }
    /// the context in which the probe of a known finding is replayed
    pub fn for_probe() -> Known {
        Known { entries: vec![], probe: true }
    }
    pub fn is_probe(&self) -> bool {
        self.probe
    }
    pub fn load(path: &Path, property: &str) -> Known {
        let mut entries = vec![];
        if let Ok(text) = std::fs::read_to_string(path) {
            for line in text.lines() {
                let line = line.trim();
                let Some(rest) = line.strip_prefix("known:") else { continue };
                let (head, what) = match rest.split_once("::") {
                    Some((h, w)) => (h.trim(), w.trim().to_string()),
                    None => (rest.trim(), String::new()),
                };
                let mut e = KnownEntry { property: String::new(), key: String::new(), probe: String::new(), what, retries: 0 };
                for tok in head.split_whitespace() {
                    if let Some(v) = tok.strip_prefix("property=") {
                        e.property = v.to_string();
                    } else if let Some(v) = tok.strip_prefix("key=") {
                        e.key = v.to_string();
                    } else if let Some(v) = tok.strip_prefix("probe=") {
                        e.probe = v.to_string();
                    } else if let Some(v) = tok.strip_prefix("retries=") {
                        e.retries = v.parse().unwrap_or(0);
                    }
                }
                if e.property == property && !e.key.is_empty() {
                    entries.push(e);
                }
            }
        }
        Known { entries, probe: false }
    }
    pub fn is_open(&self, key: &str) -> bool {
        self.entries.iter().any(|e| e.key == key)
    }
    pub fn open_entries(&self) -> &[KnownEntry] {
        &self.entries
    }
}

/// True if `key` is listed as an open finding of ANY property. Used where a finding of one property would only
/// add noise to the histories of another one (e.g. the C10 zombie-merge finding in C01/C02/C05/C11 histories).
pub fn open_anywhere(key: &str) -> bool {
    static ALL: std::sync::OnceLock<Vec<String>> = std::sync::OnceLock::new();
    let all = ALL.get_or_init(|| {
        let root = std::env::var("VERIF_ROOT").unwrap_or_else(|_| "/verif".to_string());
        let mut keys = vec![];
        if let Ok(text) = std::fs::read_to_string(std::path::Path::new(&root).join("KNOWN_FINDINGS.txt")) {
            for line in text.lines() {
                if let Some(rest) = line.trim().strip_prefix("known:") {
                    for tok in rest.split_whitespace() {
                        if let Some(v) = tok.strip_prefix("key=") {
                            keys.push(v.to_string());
                        }
                    }
                }
            }
        }
        keys
    });
    all.iter().any(|k| k == key)
}
