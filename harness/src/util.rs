//! Small helpers shared by the property modules.
use tantivy::indexer::IndexWriterOptions;
use tantivy::{Index, IndexWriter, TantivyDocument};

/// Writer configuration understood by the `verif-hooks` feature of /repo (see src/verif_hooks.rs there):
/// `flush_every` (0 = off, 1..=999) cuts a segment after that many documents, `table_bits`
/// (0 = tantivy's default, 10..=19) is the initial capacity of the term hash table.
#[derive(Clone, Copy, Debug)]
pub struct WriterCfg {
    pub threads: usize,
    pub flush_every: usize,
    pub table_bits: usize,
    pub merge_threads: usize,
}
impl Default for WriterCfg {
    fn default() -> Self {
        WriterCfg { threads: 1, flush_every: 0, table_bits: 10, merge_threads: 4 }
    }
}
impl WriterCfg {
    pub fn budget_per_thread(&self) -> usize {
        15_000_000 + 1_000 * self.table_bits + self.flush_every.min(999)
    }
}
pub fn writer_opts(cfg: WriterCfg) -> IndexWriterOptions {
    IndexWriterOptions::builder()
        .num_worker_threads(cfg.threads)
        .num_merge_threads(cfg.merge_threads)
        .memory_budget_per_thread(cfg.budget_per_thread())
        .build()
}
pub fn writer(index: &Index, cfg: WriterCfg) -> tantivy::Result<IndexWriter<TantivyDocument>> {
    index.writer_with_options(writer_opts(cfg))
}
