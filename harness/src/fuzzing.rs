//! Glue between libFuzzer targets (harness/fuzz) and the property modules' `fuzz_one` entry points.
use std::path::PathBuf;
use std::sync::OnceLock;

use crate::engine::Failure;
use crate::known::Known;

fn root() -> PathBuf {
    PathBuf::from(std::env::var("VERIF_ROOT").unwrap_or_else(|_| "/verif".to_string()))
}

/// Runs one fuzz input; aborts (so that libFuzzer saves the input) on a failure that is not a known finding.
pub fn run_one(prop: &'static str, data: &[u8], f: fn(&[u8]) -> Result<(), Failure>) {
    static KNOWN: OnceLock<Known> = OnceLock::new();
    static HOOK: OnceLock<()> = OnceLock::new();
    HOOK.get_or_init(|| {
        // tantivy panics are caught inside fuzz_one and turned into failures: keep stderr quiet
        if std::env::var("TVV_VERBOSE_PANICS").is_err() {
            std::panic::set_hook(Box::new(|_| {}));
        }
    });
    let known = KNOWN.get_or_init(|| Known::load(&root().join("KNOWN_FINDINGS.txt"), prop));
    if let Err(fl) = f(data) {
        if known.is_open(&fl.sig) || known.open_entries().iter().any(|e| e.key.ends_with('*') && fl.sig.starts_with(e.key.trim_end_matches('*'))) {
            return;
        }
        eprintln!("VIOLATION property={prop} signature={} detail={}", fl.sig, fl.detail.chars().take(1500).collect::<String>());
        std::process::abort();
    }
}

/// `tvv fuzz-replay <Cxx> <file>`: runs a saved libFuzzer input through the same entry point.
pub fn replay(prop: &str, path: &std::path::Path) -> i32 {
    let data = match std::fs::read(path) {
        Ok(d) => d,
        Err(e) => {
            println!("cannot read {}: {e}", path.display());
            return 2;
        }
    };
    let f: fn(&[u8]) -> Result<(), Failure> = match prop {
        "C09" => crate::props::c09::fuzz_one,
        "C13" => crate::props::c13::fuzz_one,
        "C15" => crate::props::c15::fuzz_one,
        "C16" => crate::props::c16::fuzz_one,
        "C19" => crate::props::c19::fuzz_one,
        _ => {
            println!("no fuzz entry point for {prop}");
            return 2;
        }
    };
    let known = Known::load(&root().join("KNOWN_FINDINGS.txt"), prop);
    match f(&data) {
        Ok(()) => {
            println!("fuzz replay passed: property={prop} ({} bytes)", data.len());
            0
        }
        Err(fl) if known.is_open(&fl.sig) => {
            println!("KNOWN-FINDING: property={prop} [key={}] {}", fl.sig, fl.detail);
            0
        }
        Err(fl) => {
            println!("VIOLATION property={prop} replay={}", path.display());
            println!("  signature={}\n  detail: {}", fl.sig, fl.detail);
            1
        }
    }
}
