//! tvv — property-based / fuzzing verification harness for tantivy (see /verif/DESIGN.md).
pub mod crash;
pub mod dump;
pub mod engine;
pub mod fuzzing;
pub mod hist;
pub mod holddir;
pub mod known;
pub mod loggate;
pub mod props;
pub mod qmodel;
pub mod rich;
pub mod scoring;
pub mod simdir;
pub mod util;

use engine::PropDef;

pub fn all_props() -> Vec<PropDef> {
    props::all()
}
