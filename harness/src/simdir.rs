//! SimDir — harness-side `Directory`: an in-memory file system that logs every storage operation,
//! injects faults, pauses threads at chosen operations (gates) and can materialise the crash image of
//! any log prefix under a chosen persistence outcome.  See DESIGN.md §2.5.
use std::collections::{BTreeMap, HashMap};
use std::io::{self, BufWriter, Write};
use std::path::{Path, PathBuf};
use std::sync::{Arc, Condvar, Mutex};
use std::time::{Duration, Instant};

use serde::{Deserialize, Serialize};
use tantivy::directory::error::{DeleteError, OpenReadError, OpenWriteError};
use tantivy::directory::{AntiCallToken, Directory, FileHandle, FileSlice, TerminatingWrite, WatchCallback, WatchCallbackList, WatchHandle, WritePtr};

#[derive(Clone, Copy, Debug, PartialEq, Eq, Hash, PartialOrd, Ord, Serialize, Deserialize)]
pub enum K {
    Create,
    Append,
    Flush,
    Terminate,
    AtomicWrite,
    AtomicRead,
    OpenRead,
    Exists,
    Delete,
    SyncDir,
    /// one `read_bytes` on an opened file; never logged, and only failed by a rule that names this kind explicitly
    Read,
}
pub const ALL_KINDS: [K; 10] = [K::Create, K::Append, K::Flush, K::Terminate, K::AtomicWrite, K::AtomicRead, K::OpenRead, K::Exists, K::Delete, K::SyncDir];

#[derive(Clone, Debug)]
pub struct Op {
    pub thread: String,
    pub kind: K,
    pub path: PathBuf,
    pub data: Option<Arc<Vec<u8>>>,
    pub failed: bool,
}

/// Fail the `nth` (0-based) operation matching the filter; `permanent` = every matching op from then on.
#[derive(Clone, Debug, Serialize, Deserialize)]
pub struct FaultRule {
    /// empty = every kind except Exists
    pub kinds: Vec<K>,
    /// thread-name prefix ("" = any)
    pub thread: String,
    /// path suffix ("" = any)
    pub path_suffix: String,
    pub nth: usize,
    pub permanent: bool,
    /// include lock files (default: lock files are never failed)
    pub locks: bool,
}

#[derive(Clone, Debug)]
pub struct GateSpec {
    pub thread: String,
    pub kind: Option<K>,
    pub path_suffix: String,
    pub nth: usize,
    pub max_hold: Duration,
}
#[derive(Debug)]
struct GateState {
    spec: GateSpec,
    seen: usize,
    reached: bool,
    released: bool,
    done: bool,
}

#[derive(Default)]
pub struct State {
    pub files: HashMap<PathBuf, Arc<Vec<u8>>>,
    /// incarnation number of each existing file: a writer whose file was unlinked (and possibly
    /// re-created) must not resurrect or overwrite it (POSIX: it writes to the unlinked inode)
    inos: HashMap<PathBuf, u64>,
    next_ino: u64,
    pub log: Vec<Op>,
    pub log_enabled: bool,
    pub log_payloads: bool,
    pub op_count: usize,
    faults: Vec<(FaultRule, usize)>,
    pub faults_fired: Vec<(usize, String, K, PathBuf)>,
    gates: Vec<GateState>,
    pub fired_by_kind_thread: BTreeMap<String, usize>,
    /// writers accept at most that many bytes per `write` call (0 = everything): short writes, as `Write` allows
    pub write_limit: usize,
    /// some fault rule names K::Read: opened files consult the fault plan on every read
    pub read_faults: bool,
    /// (thread, path) of the reads seen while `read_faults` is on
    pub reads: Vec<(String, String)>,
    /// schedule jitter (0 = off): a pseudo-random eighth of the storage operations of the background threads (updater,
    /// merge, indexing workers) is preceded by a pause of up to 1.5 ms, so that their relative order varies from run to
    /// run in other ways than the OS alone would produce.  Steering only.
    pub jitter: u64,
}

#[derive(Clone)]
pub struct SimDir {
    pub st: Arc<Mutex<State>>,
    cv: Arc<Condvar>,
    watch: Arc<WatchCallbackList>,
}
impl std::fmt::Debug for SimDir {
    fn fmt(&self, f: &mut std::fmt::Formatter<'_>) -> std::fmt::Result {
        write!(f, "SimDir")
    }
}

pub fn thread_name() -> String {
    std::thread::current().name().unwrap_or("?").to_string()
}
/// coarse class of a thread from its name
pub fn thread_class(name: &str) -> &'static str {
    if name.starts_with("thrd-tantivy-index") {
        "indexer"
    } else if name.starts_with("segment_updater") {
        "updater"
    } else if name.starts_with("merge_thread") {
        "merge"
    } else if name.starts_with("docstore-compressor") {
        "compressor"
    } else if name.starts_with("reader") {
        "reader"
    } else if name.starts_with("producer") {
        "producer"
    } else {
        "ctl"
    }
}
pub fn is_lock(p: &Path) -> bool {
    p.to_str().map(|s| s.ends_with(".lock")).unwrap_or(false)
}

impl Default for SimDir {
    fn default() -> Self {
        SimDir::new()
    }
}

impl SimDir {
    pub fn new() -> Self {
        let st = State { log_enabled: true, log_payloads: true, ..Default::default() };
        SimDir { st: Arc::new(Mutex::new(st)), cv: Default::default(), watch: Default::default() }
    }
    /// a fresh SimDir holding the given files (used for crash images)
    pub fn from_files(files: impl IntoIterator<Item = (PathBuf, Vec<u8>)>) -> Self {
        let d = SimDir::new();
        {
            let mut st = d.st.lock().unwrap();
            for (p, c) in files {
                st.files.insert(p, Arc::new(c));
            }
        }
        d
    }
    pub fn log_len(&self) -> usize {
        self.st.lock().unwrap().log.len()
    }
    pub fn op_count(&self) -> usize {
        self.st.lock().unwrap().op_count
    }
    pub fn set_logging(&self, enabled: bool, payloads: bool) {
        let mut st = self.st.lock().unwrap();
        st.log_enabled = enabled;
        st.log_payloads = payloads;
    }
    pub fn take_log(&self) -> Vec<Op> {
        std::mem::take(&mut self.st.lock().unwrap().log)
    }
    pub fn clone_log(&self) -> Vec<Op> {
        self.st.lock().unwrap().log.clone()
    }
    pub fn file_names(&self) -> Vec<String> {
        let st = self.st.lock().unwrap();
        let mut v: Vec<String> = st.files.keys().map(|p| p.to_string_lossy().to_string()).collect();
        v.sort();
        v
    }
    pub fn files_snapshot(&self) -> BTreeMap<PathBuf, Arc<Vec<u8>>> {
        self.st.lock().unwrap().files.iter().map(|(k, v)| (k.clone(), v.clone())).collect()
    }
    pub fn set_faults(&self, rules: Vec<FaultRule>) {
        let mut st = self.st.lock().unwrap();
        st.read_faults = rules.iter().any(|r| r.kinds.contains(&K::Read));
        st.faults = rules.into_iter().map(|r| (r, 0)).collect();
    }
    pub fn set_jitter(&self, seed: u64) {
        self.st.lock().unwrap().jitter = seed;
    }
    pub fn clear_faults(&self) {
        // (files opened while a read rule was armed keep consulting the - now empty - plan)
        self.st.lock().unwrap().faults.clear();
    }
    pub fn faults_fired(&self) -> usize {
        self.st.lock().unwrap().faults_fired.len()
    }
    pub fn take_reads(&self) -> Vec<(String, String)> {
        std::mem::take(&mut self.st.lock().unwrap().reads)
    }
    pub fn set_write_limit(&self, limit: usize) {
        self.st.lock().unwrap().write_limit = limit;
    }
    pub fn add_gate(&self, spec: GateSpec) -> usize {
        let mut st = self.st.lock().unwrap();
        st.gates.push(GateState { spec, seen: 0, reached: false, released: false, done: false });
        st.gates.len() - 1
    }
    /// waits until the gate was reached by a matching thread (true) or the timeout expired (false)
    pub fn wait_reached(&self, gate: usize, timeout: Duration) -> bool {
        let deadline = Instant::now() + timeout;
        let mut st = self.st.lock().unwrap();
        while !st.gates[gate].reached {
            let now = Instant::now();
            if now >= deadline {
                return false;
            }
            st = self.cv.wait_timeout(st, deadline - now).unwrap().0;
        }
        true
    }
    pub fn gate_reached(&self, gate: usize) -> bool {
        self.st.lock().unwrap().gates[gate].reached
    }
    /// the gate was reached and its thread is still held there
    pub fn gate_pending(&self, gate: usize) -> bool {
        let st = self.st.lock().unwrap();
        st.gates[gate].reached && !st.gates[gate].done
    }
    pub fn release(&self, gate: usize) {
        let mut st = self.st.lock().unwrap();
        st.gates[gate].released = true;
        self.cv.notify_all();
    }
    /// releases the gate and makes sure it never holds anything from now on
    pub fn disarm(&self, gate: usize) {
        let mut st = self.st.lock().unwrap();
        st.gates[gate].released = true;
        if !st.gates[gate].reached {
            st.gates[gate].done = true;
        }
        self.cv.notify_all();
    }
    pub fn release_all(&self) {
        let mut st = self.st.lock().unwrap();
        for g in st.gates.iter_mut() {
            g.released = true;
        }
        self.cv.notify_all();
    }

    /// Gate handling: holds the calling thread if a gate matches this operation.
    fn gate(&self, kind: K, path: &Path) {
        let thread = thread_name();
        let mut st = self.st.lock().unwrap();
        // gates (on lock files only when the gate names a lock file explicitly: the meta lock is polled and a holder
        // must not be starved; holding a thread *before* it creates the lock file starves nobody)
        let lock_file = is_lock(path);
        if !st.gates.is_empty() {
            let mut hit: Option<usize> = None;
            for (i, g) in st.gates.iter_mut().enumerate() {
                if g.done || g.reached || (lock_file && !g.spec.path_suffix.ends_with(".lock")) {
                    continue;
                }
                let m = thread.starts_with(g.spec.thread.as_str())
                    && g.spec.kind.map(|k| k == kind).unwrap_or(true)
                    && path.to_str().unwrap_or("").ends_with(g.spec.path_suffix.as_str());
                if m {
                    if g.seen == g.spec.nth {
                        hit = Some(i);
                        break;
                    }
                    g.seen += 1;
                }
            }
            if let Some(i) = hit {
                st.gates[i].reached = true;
                self.cv.notify_all();
                let deadline = Instant::now() + st.gates[i].spec.max_hold;
                while !st.gates[i].released {
                    let now = Instant::now();
                    if now >= deadline {
                        break;
                    }
                    st = self.cv.wait_timeout(st, (deadline - now).min(Duration::from_millis(20))).unwrap().0;
                }
                st.gates[i].done = true;
            }
        }
    }

    /// Central hook: gate handling, fault decision, logging.  Returns Err if the op must fail.
    fn op(&self, kind: K, path: &Path, data: Option<&[u8]>) -> io::Result<()> {
        // (a lock file is gated by `open_write` itself, before the file exists)
        if !is_lock(path) {
            self.gate(kind, path);
        }
        let thread = thread_name();
        let pause = {
            let st = self.st.lock().unwrap();
            if st.jitter != 0 && kind != K::Read && kind != K::Exists && (thread.starts_with("segment_updater") || thread.starts_with("merge_thread") || thread.starts_with("thrd-tantivy-index")) {
                let mut h = st.jitter ^ (st.op_count as u64).wrapping_mul(0x9E37_79B9_7F4A_7C15) ^ (thread.len() as u64) << 40 ^ (thread.as_bytes().last().copied().unwrap_or(0) as u64) << 32;
                h ^= h >> 29;
                h = h.wrapping_mul(0xBF58_476D_1CE4_E5B9);
                h ^= h >> 32;
                if h % 8 == 0 {
                    Some((h >> 8) % 1500)
                } else {
                    None
                }
            } else {
                None
            }
        };
        if let Some(us) = pause {
            std::thread::sleep(Duration::from_micros(us));
        }
        let mut st = self.st.lock().unwrap();
        st.op_count += 1;
        if kind == K::Read {
            let entry = (thread.clone(), path.to_string_lossy().to_string());
            st.reads.push(entry);
        }
        // faults
        let mut fail = false;
        if !st.faults.is_empty() {
            let lock = is_lock(path);
            for (rule, counter) in st.faults.iter_mut() {
                if lock && !rule.locks {
                    continue;
                }
                let kind_ok = if rule.kinds.is_empty() { kind != K::Exists && kind != K::Read } else { rule.kinds.contains(&kind) };
                if !kind_ok || !thread.starts_with(rule.thread.as_str()) || !path.to_str().unwrap_or("").ends_with(rule.path_suffix.as_str()) {
                    continue;
                }
                let c = *counter;
                *counter += 1;
                if c == rule.nth || (rule.permanent && c > rule.nth) {
                    fail = true;
                }
            }
            if fail {
                let seq = st.op_count - 1;
                st.faults_fired.push((seq, thread.clone(), kind, path.to_path_buf()));
                *st.fired_by_kind_thread.entry(format!("{kind:?}@{}", thread_class(&thread))).or_default() += 1;
            }
        }
        if st.log_enabled && kind != K::Read {
            let payload = if st.log_payloads { data.map(|d| Arc::new(d.to_vec())) } else { None };
            st.log.push(Op { thread, kind, path: path.to_path_buf(), data: payload, failed: fail });
        }
        if fail {
            Err(io::Error::other(format!("injected fault: {kind:?} {}", path.display())))
        } else {
            Ok(())
        }
    }
}

struct SimWriter {
    dir: SimDir,
    path: PathBuf,
    ino: u64,
    data: Vec<u8>,
}
impl SimWriter {
    fn publish(&mut self, take: bool) {
        let mut st = self.dir.st.lock().unwrap();
        if st.inos.get(&self.path) == Some(&self.ino) {
            let data = if take { std::mem::take(&mut self.data) } else { self.data.clone() };
            st.files.insert(self.path.clone(), Arc::new(data));
        }
    }
}
impl Write for SimWriter {
    fn write(&mut self, buf: &[u8]) -> io::Result<usize> {
        let limit = self.dir.st.lock().unwrap().write_limit;
        let buf = if limit > 0 && buf.len() > limit { &buf[..limit] } else { buf };
        self.dir.op(K::Append, &self.path, Some(buf))?;
        self.data.extend_from_slice(buf);
        Ok(buf.len())
    }
    fn flush(&mut self) -> io::Result<()> {
        self.dir.op(K::Flush, &self.path, None)?;
        self.publish(false);
        Ok(())
    }
}
impl TerminatingWrite for SimWriter {
    fn terminate_ref(&mut self, _: AntiCallToken) -> io::Result<()> {
        self.dir.op(K::Terminate, &self.path, None)?;
        self.publish(true);
        Ok(())
    }
}

/// an opened file whose reads go through the fault plan (only handed out while a rule names K::Read)
struct SimFile {
    dir: SimDir,
    path: PathBuf,
    bytes: tantivy::directory::OwnedBytes,
}
impl std::fmt::Debug for SimFile {
    fn fmt(&self, f: &mut std::fmt::Formatter<'_>) -> std::fmt::Result {
        write!(f, "SimFile({})", self.path.display())
    }
}
impl tantivy_common::HasLen for SimFile {
    fn len(&self) -> usize {
        self.bytes.len()
    }
}
impl FileHandle for SimFile {
    fn read_bytes(&self, range: std::ops::Range<usize>) -> io::Result<tantivy::directory::OwnedBytes> {
        self.dir.op(K::Read, &self.path, None)?;
        Ok(self.bytes.slice(range))
    }
}

impl Directory for SimDir {
    fn get_file_handle(&self, path: &Path) -> Result<Arc<dyn FileHandle>, OpenReadError> {
        self.op(K::OpenRead, path, None).map_err(|e| OpenReadError::wrap_io_error(e, path.to_path_buf()))?;
        let st = self.st.lock().unwrap();
        let data = st.files.get(path).ok_or_else(|| OpenReadError::FileDoesNotExist(path.to_path_buf()))?;
        if st.read_faults {
            let bytes = tantivy::directory::OwnedBytes::new(data.to_vec());
            return Ok(Arc::new(SimFile { dir: self.clone(), path: path.to_path_buf(), bytes }));
        }
        Ok(Arc::new(FileSlice::from(data.to_vec())))
    }
    fn delete(&self, path: &Path) -> Result<(), DeleteError> {
        if !self.st.lock().unwrap().files.contains_key(path) {
            return Err(DeleteError::FileDoesNotExist(path.to_path_buf()));
        }
        self.op(K::Delete, path, None).map_err(|e| DeleteError::IoError { io_error: Arc::new(e), filepath: path.to_path_buf() })?;
        {
            let mut st = self.st.lock().unwrap();
            st.files.remove(path);
            st.inos.remove(path);
        }
        Ok(())
    }
    fn exists(&self, path: &Path) -> Result<bool, OpenReadError> {
        self.op(K::Exists, path, None).map_err(|e| OpenReadError::wrap_io_error(e, path.to_path_buf()))?;
        Ok(self.st.lock().unwrap().files.contains_key(path))
    }
    fn open_write(&self, path: &Path) -> Result<WritePtr, OpenWriteError> {
        let ino;
        let lock = is_lock(path);
        if lock {
            // a thread held here has not taken the lock yet
            self.gate(K::Create, path);
            // an I/O error on a lock file strikes whether or not the file exists (nothing is created or removed)
            if let Err(e) = self.op(K::Create, path, None) {
                return Err(OpenWriteError::wrap_io_error(e, path.to_path_buf()));
            }
        }
        {
            let mut st = self.st.lock().unwrap();
            if st.files.contains_key(path) {
                return Err(OpenWriteError::FileAlreadyExists(path.to_path_buf()));
            }
            st.files.insert(path.to_path_buf(), Arc::new(Vec::new()));
            st.next_ino += 1;
            ino = st.next_ino;
            st.inos.insert(path.to_path_buf(), ino);
        }
        if !lock {
            if let Err(e) = self.op(K::Create, path, None) {
                let mut st = self.st.lock().unwrap();
                st.files.remove(path);
                st.inos.remove(path);
                return Err(OpenWriteError::wrap_io_error(e, path.to_path_buf()));
            }
        }
        Ok(BufWriter::new(Box::new(SimWriter { dir: self.clone(), path: path.to_path_buf(), ino, data: Vec::new() })))
    }
    fn atomic_read(&self, path: &Path) -> Result<Vec<u8>, OpenReadError> {
        if !self.st.lock().unwrap().files.contains_key(path) {
            return Err(OpenReadError::FileDoesNotExist(path.to_path_buf()));
        }
        self.op(K::AtomicRead, path, None).map_err(|e| OpenReadError::wrap_io_error(e, path.to_path_buf()))?;
        let st = self.st.lock().unwrap();
        st.files.get(path).map(|d| d.to_vec()).ok_or_else(|| OpenReadError::FileDoesNotExist(path.to_path_buf()))
    }
    fn atomic_write(&self, path: &Path, data: &[u8]) -> io::Result<()> {
        self.op(K::AtomicWrite, path, Some(data))?;
        {
            let mut st = self.st.lock().unwrap();
            st.files.insert(path.to_path_buf(), Arc::new(data.to_vec()));
            st.next_ino += 1;
            let ino = st.next_ino;
            st.inos.insert(path.to_path_buf(), ino);
        }
        if path == Path::new("meta.json") {
            drop(self.watch.broadcast());
        }
        Ok(())
    }
    fn sync_directory(&self) -> io::Result<()> {
        self.op(K::SyncDir, Path::new(""), None)
    }
    fn watch(&self, cb: WatchCallback) -> tantivy::Result<WatchHandle> {
        Ok(self.watch.subscribe(cb))
    }
}

// ------------------------------------------------------------------------------------------------
// Durability model: replay of a log prefix.
//
// * file *bytes* are durable once `terminate` returned (MmapDirectory: flush + sync_data);
// * a directory entry change (creation of a file, the rename performed by `atomic_write`, an unlink) is
//   durable once a later `sync_directory` returned; `atomic_write` content is synced before the rename
//   (MmapDirectory writes a temp file, syncs it, renames), so a renamed file always has full content;
// * everything else is *pending*: the storage may or may not have applied it at the crash.

#[derive(Clone, Debug)]
pub enum Pending {
    Create(PathBuf),
    Rename(PathBuf, Arc<Vec<u8>>),
    Unlink(PathBuf),
}
impl Pending {
    pub fn path(&self) -> &Path {
        match self {
            Pending::Create(p) | Pending::Rename(p, _) | Pending::Unlink(p) => p,
        }
    }
}
#[derive(Default, Clone)]
pub struct FileDur {
    pub written: Vec<u8>,
    pub synced: usize,
}
#[derive(Clone, Debug)]
pub enum Entry {
    /// a regular (write-once) file; content comes from `data`
    Regular,
    /// a file put in place by an atomic rename, with that content
    Atomic(Arc<Vec<u8>>),
}
#[derive(Default, Clone)]
pub struct Replay {
    /// durable directory entries
    pub durable: BTreeMap<PathBuf, Entry>,
    pub data: HashMap<PathBuf, FileDur>,
    pub pending: Vec<Pending>,
}

/// Incremental replayer: feed ops one by one, take images at any boundary.
impl Replay {
    pub fn new() -> Replay {
        Replay::default()
    }
    /// seeds the replay with a directory content that is fully durable (e.g. a freshly created index)
    pub fn from_durable_files(files: &BTreeMap<PathBuf, Arc<Vec<u8>>>) -> Replay {
        let mut r = Replay::default();
        for (p, c) in files {
            if is_lock(p) {
                continue;
            }
            r.durable.insert(p.clone(), Entry::Atomic(c.clone()));
        }
        r
    }
    pub fn feed(&mut self, op: &Op) {
        if is_lock(&op.path) || op.failed {
            return;
        }
        match op.kind {
            K::Create => {
                self.data.insert(op.path.clone(), FileDur::default());
                self.pending.push(Pending::Create(op.path.clone()));
            }
            K::Append => {
                if let (Some(f), Some(d)) = (self.data.get_mut(&op.path), op.data.as_ref()) {
                    f.written.extend_from_slice(d);
                }
            }
            K::Terminate => {
                if let Some(f) = self.data.get_mut(&op.path) {
                    f.synced = f.written.len();
                }
            }
            K::AtomicWrite => {
                if let Some(d) = op.data.as_ref() {
                    self.pending.push(Pending::Rename(op.path.clone(), d.clone()));
                }
            }
            K::Delete => self.pending.push(Pending::Unlink(op.path.clone())),
            K::SyncDir => {
                for p in std::mem::take(&mut self.pending) {
                    apply_pending(&mut self.durable, &p);
                }
            }
            _ => {}
        }
    }
    /// number of bytes of `path` written but not yet synced
    pub fn unsynced(&self, path: &Path) -> usize {
        self.data.get(path).map(|f| f.written.len() - f.synced).unwrap_or(0)
    }
}

pub fn apply_pending(durable: &mut BTreeMap<PathBuf, Entry>, p: &Pending) {
    match p {
        Pending::Create(path) => {
            durable.insert(path.clone(), Entry::Regular);
        }
        Pending::Rename(path, content) => {
            durable.insert(path.clone(), Entry::Atomic(content.clone()));
        }
        Pending::Unlink(path) => {
            durable.remove(path);
        }
    }
}

/// What happens to bytes that were written but not synced.
#[derive(Clone, Copy, Debug, PartialEq, Eq, Serialize, Deserialize)]
pub enum DataOutcome {
    /// only synced bytes survive
    Lost,
    /// everything written so far survives
    Full,
    /// the file exists but is empty (unless fully synced)
    Empty,
    /// a pseudo-random prefix (between synced and written) survives, derived from the salt
    Truncated(u64),
}

/// Builds the crash image: `mask(i)` says whether pending directory operation i was applied.
pub fn image(r: &Replay, mask: &dyn Fn(usize, &Pending) -> bool, data: DataOutcome) -> Vec<(PathBuf, Vec<u8>)> {
    let mut durable = r.durable.clone();
    for (i, p) in r.pending.iter().enumerate() {
        if mask(i, p) {
            apply_pending(&mut durable, p);
        }
    }
    let mut out = Vec::with_capacity(durable.len());
    for (path, entry) in durable.iter() {
        let content: Vec<u8> = match entry {
            Entry::Atomic(c) => c.to_vec(),
            Entry::Regular => match r.data.get(path) {
                None => vec![],
                Some(f) => {
                    let extra = f.written.len() - f.synced;
                    let keep = match data {
                        DataOutcome::Lost => f.synced,
                        DataOutcome::Full => f.written.len(),
                        DataOutcome::Empty => {
                            if extra == 0 {
                                f.synced
                            } else {
                                0
                            }
                        }
                        DataOutcome::Truncated(salt) => {
                            if extra == 0 {
                                f.synced
                            } else {
                                let h = crate::engine::mix(salt, crate::engine::fnv(path.to_string_lossy().as_bytes()));
                                f.synced + (h as usize) % (extra + 1)
                            }
                        }
                    };
                    f.written[..keep].to_vec()
                }
            },
        };
        out.push((path.clone(), content));
    }
    out
}
