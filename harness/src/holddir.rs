//! HoldDir: a pass-through `Directory` wrapper (used around the real `MmapDirectory`) that can hold the calling thread
//! for a bounded time right after `atomic_read("meta.json")` returned - i.e. inside the section a reloading reader
//! protects with the meta lock, between resolving the segment list and opening the segment files.  Locks, reads and
//! writes are the wrapped directory's own (for MmapDirectory: flock on the lock file).  Holds only steer the schedule;
//! no verdict depends on them.
use std::io;
use std::path::Path;
use std::sync::atomic::{AtomicU64, Ordering};
use std::sync::Arc;
use std::time::Duration;

use tantivy::directory::error::{DeleteError, LockError, OpenReadError, OpenWriteError};
use tantivy::directory::{DirectoryLock, FileHandle, Lock, WatchCallback, WatchHandle, WritePtr};
use tantivy::Directory;

#[derive(Clone)]
pub struct HoldDir {
    inner: Box<dyn Directory>,
    /// threads whose name starts with this prefix are held
    thread_prefix: Arc<String>,
    /// hold every n-th meta.json read of such a thread (0 = never)
    every: u64,
    hold: Duration,
    reads: Arc<AtomicU64>,
    pub holds_done: Arc<AtomicU64>,
}
impl std::fmt::Debug for HoldDir {
    fn fmt(&self, f: &mut std::fmt::Formatter<'_>) -> std::fmt::Result {
        write!(f, "HoldDir({:?})", self.inner)
    }
}
impl HoldDir {
    pub fn new(inner: impl Directory, thread_prefix: &str, every: u64, hold: Duration) -> HoldDir {
        HoldDir { inner: Box::new(inner), thread_prefix: Arc::new(thread_prefix.to_string()), every, hold, reads: Arc::new(AtomicU64::new(0)), holds_done: Arc::new(AtomicU64::new(0)) }
    }
}
impl Directory for HoldDir {
    fn get_file_handle(&self, path: &Path) -> Result<Arc<dyn FileHandle>, OpenReadError> {
        self.inner.get_file_handle(path)
    }
    fn delete(&self, path: &Path) -> Result<(), DeleteError> {
        self.inner.delete(path)
    }
    fn exists(&self, path: &Path) -> Result<bool, OpenReadError> {
        self.inner.exists(path)
    }
    fn open_write(&self, path: &Path) -> Result<WritePtr, OpenWriteError> {
        self.inner.open_write(path)
    }
    fn atomic_read(&self, path: &Path) -> Result<Vec<u8>, OpenReadError> {
        let r = self.inner.atomic_read(path);
        if self.every > 0 && path == Path::new("meta.json") && std::thread::current().name().map(|n| n.starts_with(self.thread_prefix.as_str())).unwrap_or(false) {
            let n = self.reads.fetch_add(1, Ordering::SeqCst);
            if n % self.every == self.every - 1 {
                std::thread::sleep(self.hold);
                self.holds_done.fetch_add(1, Ordering::SeqCst);
            }
        }
        r
    }
    fn atomic_write(&self, path: &Path, data: &[u8]) -> io::Result<()> {
        self.inner.atomic_write(path, data)
    }
    fn sync_directory(&self) -> io::Result<()> {
        self.inner.sync_directory()
    }
    fn watch(&self, cb: WatchCallback) -> tantivy::Result<WatchHandle> {
        self.inner.watch(cb)
    }
    fn acquire_lock(&self, lock: &Lock) -> Result<DirectoryLock, LockError> {
        self.inner.acquire_lock(lock)
    }
}
