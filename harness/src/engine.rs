//! Generic engine: sharded proptest runners, shrinking to a replay file, evidence accounting,
//! known-finding handling.  A *property* is a list of *sub-checks*; every sub-check has a
//! serde-serialisable case type, a proptest strategy and an interpreter/oracle (`run`).
use proptest::strategy::{BoxedStrategy, Strategy};
use proptest::test_runner::{Config, RngSeed, TestCaseError, TestError, TestRunner};
use serde::de::DeserializeOwned;
use serde::Serialize;
use serde_json::{json, Value};
use std::cell::{Cell, RefCell};
use std::collections::{BTreeMap, HashSet};
use std::fmt::Debug;
use std::panic::{catch_unwind, AssertUnwindSafe};
use std::path::{Path, PathBuf};
use std::sync::atomic::{AtomicBool, Ordering};
use std::sync::{Arc, Mutex};
use std::time::Instant;

use crate::known::Known;

#[derive(Clone, Copy, Debug, PartialEq, Eq)]
pub enum Tier {
    Quick,
    Thorough,
}
impl Tier {
    pub fn name(self) -> &'static str {
        match self {
            Tier::Quick => "quick",
            Tier::Thorough => "thorough",
        }
    }
    pub fn pick<T>(self, quick: T, thorough: T) -> T {
        match self {
            Tier::Quick => quick,
            Tier::Thorough => thorough,
        }
    }
}

/// A failed oracle. `sig` is a short structured signature (used to match known findings), `detail` is
/// free text for the human reader.
#[derive(Clone, Debug)]
pub struct Failure {
    pub sig: String,
    pub detail: String,
}
impl Failure {
    pub fn new(sig: impl Into<String>, detail: impl Into<String>) -> Failure {
        Failure { sig: sig.into(), detail: detail.into() }
    }
}
pub type CaseResult = Result<(), Failure>;

#[macro_export]
macro_rules! fail {
    ($sig:expr, $($arg:tt)*) => {
        return Err($crate::engine::Failure::new($sig, format!($($arg)*)))
    };
}
#[macro_export]
macro_rules! ensure {
    ($cond:expr, $sig:expr, $($arg:tt)*) => {
        if !($cond) {
            return Err($crate::engine::Failure::new($sig, format!($($arg)*)));
        }
    };
}
/// Converts a `Result<T, E: Debug>` coming from tantivy into a Failure with the given signature.
pub trait OrFail<T> {
    fn or_fail(self, sig: &str) -> Result<T, Failure>;
}
impl<T, E: Debug> OrFail<T> for Result<T, E> {
    fn or_fail(self, sig: &str) -> Result<T, Failure> {
        self.map_err(|e| {
            let mut d = format!("{e:?}");
            d.truncate(1500);
            Failure::new(sig, d)
        })
    }
}

#[derive(Default, Debug, Clone)]
pub struct Stats {
    pub evaluations: u64,
    pub labels: BTreeMap<String, u64>,
    pub counters: BTreeMap<String, u64>,
    pub nontrivial: HashSet<u64>,
    pub samples: Vec<Value>,
    pub excluded: BTreeMap<String, u64>,
    pub known_hits: BTreeMap<String, u64>,
}
impl Stats {
    pub fn merge(&mut self, o: Stats) {
        self.evaluations += o.evaluations;
        for (k, v) in o.labels {
            *self.labels.entry(k).or_default() += v;
        }
        for (k, v) in o.counters {
            *self.counters.entry(k).or_default() += v;
        }
        for (k, v) in o.excluded {
            *self.excluded.entry(k).or_default() += v;
        }
        for (k, v) in o.known_hits {
            *self.known_hits.entry(k).or_default() += v;
        }
        self.nontrivial.extend(o.nontrivial);
        for s in o.samples {
            if self.samples.len() < 4 {
                self.samples.push(s);
            }
        }
    }
}

/// Per-case context handed to `Sub::run`.
pub struct Ctx<'a> {
    pub tier: Tier,
    pub known: &'a Known,
    pub replay: bool,
    stats: &'a RefCell<Stats>,
    counting: &'a Cell<bool>,
}
impl<'a> Ctx<'a> {
    pub fn new(tier: Tier, known: &'a Known, replay: bool, stats: &'a RefCell<Stats>, counting: &'a Cell<bool>) -> Self {
        Ctx { tier, known, replay, stats, counting }
    }
    pub fn label(&self, l: &str) {
        if self.counting.get() {
            *self.stats.borrow_mut().labels.entry(l.to_string()).or_default() += 1;
        }
    }
    pub fn label_if(&self, cond: bool, l: &str) {
        if cond {
            self.label(l)
        }
    }
    pub fn count(&self, k: &str, n: u64) {
        if self.counting.get() {
            *self.stats.borrow_mut().counters.entry(k.to_string()).or_default() += n;
        }
    }
    /// additional evaluated inputs inside one generated case (e.g. every damage applied to one index)
    pub fn evals(&self, n: u64) {
        if self.counting.get() {
            self.stats.borrow_mut().evaluations += n;
        }
    }
    pub fn excluded(&self, k: &str, n: u64) {
        if self.counting.get() && n > 0 {
            *self.stats.borrow_mut().excluded.entry(k.to_string()).or_default() += n;
        }
    }
    /// Registers a distinct non-trivial case by fingerprint.
    pub fn nontrivial(&self, fp: u64) {
        if self.counting.get() {
            self.stats.borrow_mut().nontrivial.insert(fp);
        }
    }
    pub fn sample(&self, v: impl FnOnce() -> Value) {
        if self.counting.get() {
            let mut st = self.stats.borrow_mut();
            if st.samples.len() < 4 {
                let mut val = v();
                truncate_value(&mut val, 0);
                st.samples.push(val);
            }
        }
    }
    /// True if the known-findings file lists `key` as open for the current property.
    pub fn known_open(&self, key: &str) -> bool {
        self.known.is_open(key)
    }
}

/// keeps evidence samples readable: long arrays / strings are cut.
pub fn truncate_value(v: &mut Value, depth: usize) {
    match v {
        Value::Array(a) => {
            let max = if depth == 0 { 60 } else { 24 };
            if a.len() > max {
                let n = a.len();
                a.truncate(max);
                a.push(Value::String(format!("… ({} more)", n - max)));
            }
            for x in a.iter_mut() {
                truncate_value(x, depth + 1);
            }
        }
        Value::Object(o) => {
            for (_, x) in o.iter_mut() {
                truncate_value(x, depth + 1);
            }
        }
        Value::String(s) => {
            if s.len() > 300 {
                let mut cut = 300;
                while !s.is_char_boundary(cut) {
                    cut -= 1;
                }
                let n = s.len();
                s.truncate(cut);
                s.push_str(&format!("… ({n} bytes)"));
            }
        }
        _ => {}
    }
}

pub fn fnv(bytes: &[u8]) -> u64 {
    let mut h: u64 = 0xcbf29ce484222325;
    for b in bytes {
        h ^= *b as u64;
        h = h.wrapping_mul(0x100000001b3);
    }
    h
}
pub fn fp<T: Serialize>(t: &T) -> u64 {
    fnv(serde_json::to_vec(t).unwrap_or_default().as_slice())
}
pub fn mix(a: u64, b: u64) -> u64 {
    let mut x = a ^ b.wrapping_mul(0x9E3779B97F4A7C15);
    x ^= x >> 30;
    x = x.wrapping_mul(0xBF58476D1CE4E5B9);
    x ^= x >> 27;
    x = x.wrapping_mul(0x94D049BB133111EB);
    x ^ (x >> 31)
}

/// One sub-check of a property.
pub trait Sub: Send + Sync + 'static {
    type Case: Serialize + DeserializeOwned + Debug + Clone + 'static;
    fn name(&self) -> &'static str;
    /// total number of generated cases for the tier (split over shards)
    fn cases(&self, tier: Tier) -> u32;
    fn shards(&self, _tier: Tier) -> usize {
        16
    }
    fn max_shrink_iters(&self) -> u32 {
        2000
    }
    fn strategy(&self, tier: Tier) -> BoxedStrategy<Self::Case>;
    fn run(&self, case: &Self::Case, cx: &Ctx) -> CaseResult;
    /// labels that must have at least one member, otherwise the run is reported as vacuous (exit 2)
    fn mandatory_labels(&self, _tier: Tier) -> Vec<&'static str> {
        vec![]
    }
}

pub struct Violation {
    pub sub: String,
    pub replay: PathBuf,
    pub failure: Failure,
}

pub struct SubReport {
    pub name: String,
    pub stats: Stats,
    pub violations: Vec<Violation>,
    pub missing_labels: Vec<String>,
}

pub trait DynSub: Send + Sync {
    fn name(&self) -> &'static str;
    fn run_all(&self, prop: &str, tier: Tier, seed: u64, known: &Known, replay_dir: &Path) -> SubReport;
    fn replay(&self, case: &Value, tier: Tier, known: &Known) -> (CaseResult, Stats);
}

thread_local! {
    static LAST_PANIC: RefCell<Option<String>> = const { RefCell::new(None) };
    static IN_GUARDED: Cell<bool> = const { Cell::new(false) };
}

pub fn install_panic_hook() {
    let verbose = std::env::var("TVV_VERBOSE_PANICS").is_ok();
    std::panic::set_hook(Box::new(move |info| {
        let loc = info.location().map(|l| format!("{}:{}", l.file(), l.line())).unwrap_or_default();
        let msg = if let Some(s) = info.payload().downcast_ref::<&str>() {
            s.to_string()
        } else if let Some(s) = info.payload().downcast_ref::<String>() {
            s.clone()
        } else {
            "<non-string panic>".to_string()
        };
        let thread = std::thread::current().name().unwrap_or("?").to_string();
        let guarded = IN_GUARDED.with(|g| g.get());
        if verbose || (!guarded && thread.starts_with("ctl-")) || thread == "main" {
            eprintln!("[panic on {thread}] {msg} at {loc}");
        }
        LAST_PANIC.with(|p| *p.borrow_mut() = Some(format!("{msg} at {loc}")));
        LAST_BG_PANIC.lock().unwrap().replace(format!("[{thread}] {msg} at {loc}"));
    }));
}
pub static LAST_BG_PANIC: Mutex<Option<String>> = Mutex::new(None);

/// Runs one case, converting panics into failures with signature `panic`.
pub fn run_guarded<S: Sub>(s: &S, case: &S::Case, cx: &Ctx) -> CaseResult {
    LAST_PANIC.with(|p| *p.borrow_mut() = None);
    IN_GUARDED.with(|g| g.set(true));
    let res = catch_unwind(AssertUnwindSafe(|| s.run(case, cx)));
    IN_GUARDED.with(|g| g.set(false));
    match res {
        Ok(r) => r,
        Err(_) => {
            // the panic may have happened on a helper thread (executor pool, rayon): fall back to the last
            // panic seen anywhere in the process
            let msg = LAST_PANIC
                .with(|p| p.borrow_mut().take())
                .or_else(|| LAST_BG_PANIC.lock().ok().and_then(|mut g| g.take()))
                .unwrap_or_else(|| "panic".into());
            Err(Failure::new(panic_sig(&msg), msg))
        }
    }
}
/// signature of a panic: `panic:` + source file of the panic (without line) so that unrelated panics
/// are not confused, but line drift does not matter.
pub fn panic_sig(msg: &str) -> String {
    let loc = msg.rsplit(" at ").next().unwrap_or("");
    let file = loc.rsplit_once(':').map(|x| x.0).unwrap_or(loc);
    let file = file.rsplit('/').take(2).collect::<Vec<_>>().into_iter().rev().collect::<Vec<_>>().join("/");
    format!("panic:{file}")
}

impl<S: Sub> DynSub for S {
    fn name(&self) -> &'static str {
        Sub::name(self)
    }

    fn replay(&self, case: &Value, tier: Tier, known: &Known) -> (CaseResult, Stats) {
        let stats = RefCell::new(Stats::default());
        let counting = Cell::new(true);
        let case: S::Case = match serde_json::from_value(case.clone()) {
            Ok(c) => c,
            Err(e) => return (Err(Failure::new("replay_decode", format!("{e}"))), Stats::default()),
        };
        let cx = Ctx::new(tier, known, true, &stats, &counting);
        stats.borrow_mut().evaluations += 1;
        let r = run_guarded(self, &case, &cx);
        (r, stats.into_inner())
    }

    fn run_all(&self, prop: &str, tier: Tier, seed: u64, known: &Known, replay_dir: &Path) -> SubReport {
        let total = self.cases(tier);
        let nshards = std::env::var("TVV_SHARDS").ok().and_then(|s| s.parse().ok()).unwrap_or_else(|| self.shards(tier));
        let nshards = nshards.max(1).min(total.max(1) as usize);
        let stop = Arc::new(AtomicBool::new(false));
        let merged = Mutex::new(Stats::default());
        let violations: Mutex<Vec<Violation>> = Mutex::new(vec![]);
        let sub_name = Sub::name(self);
        std::thread::scope(|scope| {
            for shard in 0..nshards {
                let stop = stop.clone();
                let merged = &merged;
                let violations = &violations;
                let cases = total / nshards as u32 + if (shard as u32) < total % nshards as u32 { 1 } else { 0 };
                std::thread::Builder::new()
                    .name(format!("ctl-{sub_name}-{shard}"))
                    .stack_size(64 << 20)
                    .spawn_scoped(scope, move || {
                        if cases == 0 {
                            return;
                        }
                        let shard_seed = mix(mix(seed, fnv(sub_name.as_bytes())), shard as u64 + 1);
                        let cfg = Config {
                            cases,
                            rng_seed: RngSeed::Fixed(shard_seed),
                            failure_persistence: None,
                            max_shrink_iters: self.max_shrink_iters(),
                            max_shrink_time: tier.pick(120_000, 600_000),
                            max_global_rejects: 1 << 20,
                            verbose: 0,
                            ..Config::default()
                        };
                        let mut runner = TestRunner::new(cfg);
                        let stats = RefCell::new(Stats::default());
                        let counting = Cell::new(true);
                        let last_fail: RefCell<Option<Failure>> = RefCell::new(None);
                        let strat = self.strategy(tier);
                        let res = runner.run(&strat, |case| {
                            if counting.get() && stop.load(Ordering::Relaxed) {
                                // another shard already found a violation: finish fast
                                return Ok(());
                            }
                            let cx = Ctx::new(tier, known, false, &stats, &counting);
                            if counting.get() {
                                stats.borrow_mut().evaluations += 1;
                            }
                            match run_guarded(self, &case, &cx) {
                                Ok(()) => Ok(()),
                                Err(f) => {
                                    if known.is_open(&f.sig) {
                                        if counting.get() {
                                            *stats.borrow_mut().known_hits.entry(f.sig.clone()).or_default() += 1;
                                        }
                                        return Ok(());
                                    }
                                    counting.set(false);
                                    stop.store(true, Ordering::Relaxed);
                                    let msg = format!("{}: {}", f.sig, f.detail);
                                    *last_fail.borrow_mut() = Some(f);
                                    Err(TestCaseError::fail(msg))
                                }
                            }
                        });
                        match res {
                            Ok(()) => {}
                            Err(TestError::Fail(_reason, case)) => {
                                // re-run the minimal case once to get its own signature
                                let probe_stats = RefCell::new(Stats::default());
                                let no_count = Cell::new(false);
                                let cx = Ctx::new(tier, known, true, &probe_stats, &no_count);
                                let failure = match run_guarded(self, &case, &cx) {
                                    Err(f) if !known.is_open(&f.sig) => f,
                                    _ => last_fail.borrow_mut().take().unwrap_or_else(|| Failure::new("unknown", "")),
                                };
                                let case_json = serde_json::to_value(&case).unwrap_or(Value::Null);
                                let h = fnv(serde_json::to_vec(&case_json).unwrap_or_default().as_slice());
                                let path = replay_dir.join(format!("{prop}-{sub_name}-{:012x}.json", h & 0xffff_ffff_ffff));
                                let doc = json!({
                                    "property": prop, "sub": sub_name, "seed": seed, "tier": tier.name(),
                                    "signature": failure.sig, "detail": failure.detail, "case": case_json,
                                });
                                let _ = std::fs::create_dir_all(replay_dir);
                                let _ = std::fs::write(&path, serde_json::to_vec_pretty(&doc).unwrap());
                                violations.lock().unwrap().push(Violation { sub: sub_name.to_string(), replay: path, failure });
                            }
                            Err(TestError::Abort(reason)) => {
                                let path = replay_dir.join(format!("{prop}-{sub_name}-abort.txt"));
                                let _ = std::fs::create_dir_all(replay_dir);
                                let _ = std::fs::write(&path, format!("{reason}"));
                                violations.lock().unwrap().push(Violation {
                                    sub: sub_name.to_string(),
                                    replay: path,
                                    failure: Failure::new("INFRA:generator_abort", format!("{reason}")),
                                });
                            }
                        }
                        merged.lock().unwrap().merge(stats.into_inner());
                    })
                    .expect("spawn shard");
            }
        });
        let stats = merged.into_inner().unwrap();
        let missing_labels = self
            .mandatory_labels(tier)
            .into_iter()
            .filter(|l| stats.labels.get(*l).copied().unwrap_or(0) == 0)
            .map(|s| s.to_string())
            .collect();
        SubReport { name: sub_name.to_string(), stats, violations: violations.into_inner().unwrap(), missing_labels }
    }
}

/// Static description of a property check.
pub struct PropDef {
    pub id: &'static str,
    pub level: &'static str,
    pub rule: &'static str,
    pub assumptions: Vec<&'static str>,
    pub subs: Vec<Box<dyn DynSub>>,
}

pub struct RunOutcome {
    pub exit_code: i32,
}

/// Runs a whole property: known-finding probes, regression replays, every sub-check; writes evidence.
pub fn run_property(def: &PropDef, tier: Tier, seed: u64, verif_root: &Path) -> RunOutcome {
    let t0 = Instant::now();
    let known = Known::load(&verif_root.join("KNOWN_FINDINGS.txt"), def.id);
    let replay_dir = verif_root.join("replays").join("found");
    let mut violations: Vec<Violation> = vec![];
    let mut infra: Vec<String> = vec![];
    let mut known_lines = vec![];
    let mut regress_run = 0u64;
    let only_sub = std::env::var("TVV_SUB").ok();

    // 1. probes of open known findings
    for e in known.open_entries() {
        let path = verif_root.join(&e.probe);
        match load_replay(&path) {
            Err(err) => infra.push(format!("cannot load known-finding probe {}: {err}", path.display())),
            Ok((sub, case)) => match def.subs.iter().find(|s| s.name() == sub) {
                None => infra.push(format!("probe {} names unknown sub {sub}", path.display())),
                Some(s) => {
                    // schedule-dependent probes are retried a few times until they show the finding
                    let mut r = s.replay(&case, tier, &Known::for_probe()).0;
                    for _ in 0..e.retries {
                        if r.is_err() {
                            break;
                        }
                        r = s.replay(&case, tier, &Known::for_probe()).0;
                    }
                    match r {
                        Err(f) if f.sig == e.key => {
                            let line = format!("KNOWN-FINDING: property={} {} [key={}]", def.id, e.what, e.key);
                            println!("{line}");
                            known_lines.push(line);
                        }
                        Err(f) => violations.push(Violation { sub: sub.clone(), replay: path.clone(), failure: f }),
                        Ok(()) => println!(
                            "note: known finding key={} no longer reproduces with its probe {} (entry can be marked fixed)",
                            e.key,
                            path.display()
                        ),
                    }
                }
            },
        }
    }
    // 2. regression replays (fixed findings, earlier shrunk cases)
    let regress_dir = verif_root.join("replays").join("regress");
    if let Ok(rd) = std::fs::read_dir(&regress_dir) {
        let mut files: Vec<PathBuf> = rd
            .filter_map(|e| e.ok().map(|e| e.path()))
            .filter(|p| p.file_name().and_then(|n| n.to_str()).map(|n| n.starts_with(def.id) && n.ends_with(".json")).unwrap_or(false))
            .collect();
        files.sort();
        for path in files {
            match load_replay(&path) {
                Err(err) => infra.push(format!("cannot load regression {}: {err}", path.display())),
                Ok((sub, case)) => {
                    if let Some(s) = def.subs.iter().find(|s| s.name() == sub) {
                        regress_run += 1;
                        let (r, _) = s.replay(&case, tier, &known);
                        if let Err(f) = r {
                            if !known.is_open(&f.sig) {
                                violations.push(Violation { sub, replay: path, failure: f });
                            }
                        }
                    } else {
                        infra.push(format!("regression {} names unknown sub {sub}", path.display()));
                    }
                }
            }
        }
    }
    // 3. generated search
    let mut reports = vec![];
    for s in &def.subs {
        if let Some(o) = &only_sub {
            if o != s.name() {
                continue;
            }
        }
        let ts = Instant::now();
        let rep = s.run_all(def.id, tier, seed, &known, &replay_dir);
        eprintln!(
            "[{}:{}] evaluations={} nontrivial={} known_hits={:?} excluded={:?} {:.1}s",
            def.id,
            rep.name,
            rep.stats.evaluations,
            rep.stats.nontrivial.len(),
            rep.stats.known_hits,
            rep.stats.excluded,
            ts.elapsed().as_secs_f64()
        );
        reports.push(rep);
    }
    let mut total = Stats::default();
    let mut per_sub = serde_json::Map::new();
    for rep in reports.iter_mut() {
        for v in rep.violations.drain(..) {
            if v.failure.sig.starts_with("INFRA:") {
                infra.push(format!("{}: {} {}", v.sub, v.failure.sig, v.failure.detail));
            } else {
                violations.push(v);
            }
        }
        for l in &rep.missing_labels {
            infra.push(format!("vacuous: sub {} produced no case with mandatory label `{l}`", rep.name));
        }
        per_sub.insert(
            rep.name.clone(),
            json!({
                "evaluations": rep.stats.evaluations,
                "distinct_nontrivial": rep.stats.nontrivial.len(),
                "labels": rep.stats.labels,
                "counters": rep.stats.counters,
                "excluded_by_construction": rep.stats.excluded,
                "known_finding_hits": rep.stats.known_hits,
            }),
        );
        // distinct sets of different subs are disjoint by construction (different case types): sum
        let mut st = rep.stats.clone();
        let name_h = fnv(rep.name.as_bytes());
        st.nontrivial = st.nontrivial.into_iter().map(|h| mix(h, name_h)).collect();
        total.merge(st);
    }
    let wall = t0.elapsed().as_secs_f64();
    let mut coverage = json!({
        "evaluations": total.evaluations,
        "distinct_nontrivial": total.nontrivial.len(),
        "rule": def.rule,
        "samples": total.samples,
        "labels": total.labels,
        "counters": total.counters,
        "excluded_by_construction": total.excluded,
        "known_finding_hits": total.known_hits,
        "known_findings_reported": known_lines,
        "regressions_replayed": regress_run,
        "per_sub": per_sub,
        "exhaustive": false,
    });
    if def.level == "translation_validation" {
        coverage["programs"] = json!(total.counters.get("programs").copied().unwrap_or(total.evaluations));
        coverage["disagreements_checked"] = json!(total.counters.get("disagreements_checked").copied().unwrap_or(0));
    }
    let evidence = json!({
        "property_id": def.id,
        "tier": tier.name(),
        "seed": seed,
        "level": def.level,
        "coverage": coverage,
        "assumptions": def.assumptions,
        "wall_s": (wall * 100.0).round() / 100.0,
        "violations": violations.len(),
    });
    let ev_dir = verif_root.join("evidence");
    let _ = std::fs::create_dir_all(&ev_dir);
    if only_sub.is_none() {
        let _ = std::fs::write(ev_dir.join(format!("{}.json", def.id)), serde_json::to_vec_pretty(&evidence).unwrap());
    }
    // report each distinct replay file once, at most 5 (one per shard may have found the same thing)
    let mut seen = HashSet::new();
    violations.retain(|v| seen.insert(v.replay.clone()));
    let mut seen_sig: BTreeMap<String, usize> = BTreeMap::new();
    violations.retain(|v| {
        let n = seen_sig.entry(v.failure.sig.clone()).or_default();
        *n += 1;
        *n <= 2
    });
    violations.truncate(6);
    for v in &violations {
        println!("VIOLATION property={} replay={}", def.id, v.replay.display());
        println!("  sub={} signature={}", v.sub, v.failure.sig);
        let mut d = v.failure.detail.clone();
        if d.len() > 3000 {
            let mut cut = 3000;
            while !d.is_char_boundary(cut) {
                cut -= 1;
            }
            d.truncate(cut);
        }
        println!("  detail: {d}");
    }
    if !violations.is_empty() {
        return RunOutcome { exit_code: 1 };
    }
    if !infra.is_empty() {
        for i in &infra {
            println!("INCONCLUSIVE property={} {i}", def.id);
        }
        return RunOutcome { exit_code: 2 };
    }
    println!(
        "OK property={} tier={} seed={} evaluations={} distinct_nontrivial={} wall_s={:.1}",
        def.id,
        tier.name(),
        seed,
        total.evaluations,
        total.nontrivial.len(),
        wall
    );
    RunOutcome { exit_code: 0 }
}

pub fn load_replay(path: &Path) -> Result<(String, Value), String> {
    let bytes = std::fs::read(path).map_err(|e| format!("{e}"))?;
    let v: Value = serde_json::from_slice(&bytes).map_err(|e| format!("{e}"))?;
    let sub = v.get("sub").and_then(|s| s.as_str()).ok_or("no `sub`")?.to_string();
    let case = v.get("case").cloned().ok_or("no `case`")?;
    Ok((sub, case))
}

/// `tvv replay <file>`
pub fn replay_file(defs: &[PropDef], path: &Path, verif_root: &Path) -> i32 {
    let bytes = match std::fs::read(path) {
        Ok(b) => b,
        Err(e) => {
            println!("cannot read {}: {e}", path.display());
            return 2;
        }
    };
    let v: Value = match serde_json::from_slice(&bytes) {
        Ok(v) => v,
        Err(e) => {
            println!("cannot parse {}: {e}", path.display());
            return 2;
        }
    };
    let prop = v.get("property").and_then(|s| s.as_str()).unwrap_or("");
    let (sub, case) = match load_replay(path) {
        Ok(x) => x,
        Err(e) => {
            println!("bad replay file: {e}");
            return 2;
        }
    };
    let Some(def) = defs.iter().find(|d| d.id == prop) else {
        println!("unknown property {prop}");
        return 2;
    };
    let Some(s) = def.subs.iter().find(|s| s.name() == sub) else {
        println!("unknown sub {sub}");
        return 2;
    };
    let known = Known::load(&verif_root.join("KNOWN_FINDINGS.txt"), def.id);
    // probes of known findings are replayed without exclusions; everything else as in generation
    let is_probe = known.open_entries().iter().any(|e| verif_root.join(&e.probe) == path || Path::new(&e.probe) == path);
    let (r, stats) = if is_probe { s.replay(&case, Tier::Quick, &Known::for_probe()) } else { s.replay(&case, Tier::Quick, &known) };
    match r {
        Ok(()) => {
            println!("replay passed: property={prop} sub={sub} labels={:?}", stats.labels);
            0
        }
        Err(f) => {
            if known.is_open(&f.sig) {
                println!("KNOWN-FINDING: property={prop} [key={}] {}", f.sig, f.detail);
                0
            } else {
                println!("VIOLATION property={prop} replay={}", path.display());
                println!("  sub={sub} signature={}\n  detail: {}", f.sig, f.detail);
                1
            }
        }
    }
}

/// helper for strategies: monotone index mapping (shrinks towards 0)
pub fn idx(raw: u16, len: usize) -> usize {
    if len == 0 {
        0
    } else {
        ((raw as usize) * len) >> 16
    }
}

pub fn boxed<S: Strategy + 'static>(s: S) -> BoxedStrategy<S::Value> {
    s.boxed()
}
