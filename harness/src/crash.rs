//! Recovery predicate for crash images (C01, also used by C10's crash clause and C11's durable images).
use std::collections::BTreeSet;
use std::path::PathBuf;

use tantivy::indexer::NoMergePolicy;
use tantivy::{Index, TantivyDocument};

use crate::engine::*;
use crate::hist::*;
use crate::simdir::SimDir;
use crate::util::{writer, WriterCfg};
use crate::{ensure, fail};

pub const PROBE_UID: u64 = 9_000_000;

/// `files`: the crash image. `acceptable`: commit numbers the image may expose. `models[j]`: content of
/// commit j. `deep`: also create a writer, add + commit + gc, and check the no-orphan predicate.
/// Returns the commit number found.
pub fn check_image(files: Vec<(PathBuf, Vec<u8>)>, acceptable: &[u64], models: &[Model], deep: bool, orphans: bool) -> Result<u64, Failure> {
    let dir = SimDir::from_files(files);
    dir.set_logging(false, false);
    let index = Index::open(dir.clone()).or_fail("recover:index_open_failed")?;
    let (_schema, f) = hist_schema();
    let j: u64 = {
        let meta = index.load_metas().or_fail("recover:load_metas_failed")?;
        match meta.payload.as_deref() {
            None => 0,
            Some(p) => p.strip_prefix('c').and_then(|x| x.parse().ok()).ok_or_else(|| Failure::new("recover:bad_payload", format!("{p:?}")))?,
        }
    };
    ensure!(acceptable.contains(&j), "recover:wrong_commit", "recovered commit c{j}, acceptable {acceptable:?}");
    // every referenced component exists and passes its checksum
    {
        let present: BTreeSet<String> = dir.file_names().into_iter().collect();
        for m in index.searchable_segment_metas().or_fail("recover:metas_failed")? {
            for file in m.list_files() {
                let name = file.to_string_lossy().to_string();
                if name.ends_with(".store.temp") || (name.ends_with(".del") && !m.has_deletes()) {
                    continue;
                }
                ensure!(present.contains(&name), "recover:referenced_file_missing", "c{j}: {name} is referenced by meta.json but absent");
            }
        }
    }
    match index.validate_checksum() {
        Ok(bad) => ensure!(bad.is_empty(), "recover:checksum_mismatch", "c{j}: {bad:?}"),
        Err(e) => fail!("recover:checksum_error", "c{j}: {e:?}"),
    }
    let model = models.get(j as usize).ok_or_else(|| Failure::new("recover:unknown_commit", format!("c{j}")))?;
    {
        let reader = index.reader_builder().reload_policy(tantivy::ReloadPolicy::Manual).try_into().or_fail("recover:reader_open_failed")?;
        let reader: tantivy::IndexReader = reader;
        verify_searcher(&reader.searcher(), &f, model, "recovered").map_err(|fl| Failure::new(format!("recover:{}", fl.sig), fl.detail))?;
    }
    if deep {
        let w = writer(&index, WriterCfg::default()).or_fail("recover:new_writer_failed")?;
        w.set_merge_policy(Box::new(NoMergePolicy));
        let mut w = w;
        let mut d = TantivyDocument::new();
        d.add_u64(f.uid, PROBE_UID);
        d.add_text(f.grp, "g0");
        d.add_text(f.body, "w0");
        d.add_i64(f.num, 0);
        w.add_document(d).or_fail("recover:add_failed")?;
        w.commit().or_fail("recover:commit_failed")?;
        w.garbage_collect_files().wait().or_fail("recover:gc_failed")?;
        let mut exp = model.clone();
        exp.insert(PROBE_UID, DocRec { grp: 0, words: vec![0], num: 0 });
        {
            let reader: tantivy::IndexReader =
                index.reader_builder().reload_policy(tantivy::ReloadPolicy::Manual).try_into().or_fail("recover:reader_open_failed")?;
            verify_searcher(&reader.searcher(), &f, &exp, "recovered+commit").map_err(|fl| Failure::new(format!("recover:after_commit:{}", fl.sig), fl.detail))?;
        }
        let present: BTreeSet<String> = dir.file_names().into_iter().filter(|p| !p.starts_with('.')).collect();
        let managed: BTreeSet<String> = index.directory().list_managed_files().iter().map(|p| p.to_string_lossy().to_string()).filter(|p| !p.starts_with('.')).collect();
        // the persisted list of managed files matches the files that exist: a path that was registered but whose file
        // never made it to storage (crash between the registration and the creation) is dropped by the collection
        let dangling: Vec<&String> = managed.difference(&present).collect();
        ensure!(dangling.is_empty(), "recover:managed_list_names_missing_files", "after recovery + commit + gc .managed.json still lists files that do not exist: {dangling:?}");
        if !orphans {
            return Ok(j);
        }
        // no-orphan predicate on the recovered directory (C10's crash clause)
        let mut allowed: BTreeSet<String> = BTreeSet::new();
        allowed.insert("meta.json".into());
        for m in index.searchable_segment_metas().or_fail("recover:metas_failed")? {
            for file in m.list_files() {
                allowed.insert(file.to_string_lossy().to_string());
            }
        }
        let orphans: Vec<&String> = present.difference(&allowed).collect();
        if !orphans.is_empty() {
            let unmanaged = orphans.iter().filter(|o| !managed.contains(**o)).count();
            fail!(
                if unmanaged > 0 { "recover:orphan_unmanaged" } else { "recover:orphan_managed" },
                "after recovery + commit + gc: orphans {orphans:?} ({unmanaged} not in .managed.json)"
            );
        }
        drop(w);
    }
    Ok(j)
}
