//! A richer document shape (multi-valued text / string / numeric fast fields, optional f64, freq-only text,
//! bytes payload, single-valued sort key) used by the merge (C04) and sorted-index (C17) checks.
use proptest::prelude::*;
use serde::{Deserialize, Serialize};
use tantivy::schema::*;
use tantivy::TantivyDocument;

#[derive(Clone, Debug, PartialEq, Serialize, Deserialize)]
pub struct RichDoc {
    /// values of the positional text field; each value is a list of word ids
    pub title: Vec<Vec<u8>>,
    pub tags: Vec<u8>,
    pub nums: Vec<i16>,
    /// optional f64 fast value = x * 0.5
    pub f: Option<i16>,
    /// words of the freq-only text field
    pub ft: Vec<u8>,
    pub sort: u8,
    pub blob_len: u8,
}

pub fn rich_doc_strategy() -> impl Strategy<Value = RichDoc> {
    (
        prop::collection::vec(prop::collection::vec(0u8..8, 0..6), 0..3),
        prop::collection::vec(0u8..5, 0..3),
        prop::collection::vec(-50i16..50, 0..3),
        prop::option::weighted(0.7, -40i16..40),
        prop::collection::vec(0u8..6, 0..5),
        prop_oneof![6 => 0u8..6, 2 => any::<u8>(), 1 => Just(7u8)],
        prop_oneof![4 => 0u8..10, 1 => 100u8..=255],
    )
        .prop_map(|(title, tags, nums, f, ft, sort, blob_len)| RichDoc { title, tags, nums, f, ft, sort, blob_len })
}

pub struct RichFields {
    pub uid: Field,
    pub title: Field,
    pub tag: Field,
    pub num: Field,
    pub f: Field,
    pub ft: Field,
    pub sortkey: Field,
    pub blob: Field,
    /// JSON object {"n": first num, "b": has f, "w": the ft words}: indexed with positions (numbers / bools are
    /// recorded without frequencies)
    pub attrs: Field,
}

pub fn rich_schema() -> (Schema, RichFields) {
    let mut sb = Schema::builder();
    let uid = sb.add_u64_field("uid", FAST | INDEXED | STORED);
    let title = sb.add_text_field("title", TEXT | STORED);
    let tag = sb.add_text_field("tag", STRING | STORED | FAST);
    let num = sb.add_i64_field("num", FAST | INDEXED | STORED);
    let f = sb.add_f64_field("f", FAST | STORED);
    let ft_opts = TextOptions::default().set_indexing_options(TextFieldIndexing::default().set_tokenizer("default").set_index_option(IndexRecordOption::WithFreqs));
    let ft = sb.add_text_field("ft", ft_opts);
    let sortkey = sb.add_u64_field("sortkey", FAST | INDEXED);
    let blob = sb.add_bytes_field("blob", STORED);
    let attrs = sb.add_json_field("attrs", TEXT);
    (sb.build(), RichFields { uid, title, tag, num, f, ft, sortkey, blob, attrs })
}

fn add_attrs(t: &mut TantivyDocument, d: &RichDoc, f: &RichFields) {
    let mut obj: Vec<(String, OwnedValue)> = vec![];
    if let Some(n) = d.nums.first() {
        obj.push(("n".into(), OwnedValue::I64(*n as i64 % 7)));
    }
    obj.push(("b".into(), OwnedValue::Bool(d.f.is_some())));
    if !d.ft.is_empty() {
        obj.push(("w".into(), OwnedValue::Str(words(&d.ft))));
    }
    t.add_field_value(f.attrs, &OwnedValue::Object(obj));
}

pub fn words(ws: &[u8]) -> String {
    ws.iter().map(|w| format!("w{w}")).collect::<Vec<_>>().join(" ")
}

pub fn to_tantivy(uid: u64, d: &RichDoc, f: &RichFields) -> TantivyDocument {
    let mut t = TantivyDocument::new();
    t.add_u64(f.uid, uid);
    for v in &d.title {
        t.add_text(f.title, words(v));
    }
    for tag in &d.tags {
        t.add_text(f.tag, format!("t{tag}"));
    }
    for n in &d.nums {
        t.add_i64(f.num, *n as i64);
    }
    if let Some(x) = d.f {
        t.add_f64(f.f, x as f64 * 0.5);
    }
    if !d.ft.is_empty() {
        t.add_text(f.ft, words(&d.ft));
    }
    // a sort value of 7 (mod 8) stands for "no value": sorted indexes keep such documents first (asc) / last (desc)
    if d.sort % 8 != 7 {
        t.add_u64(f.sortkey, d.sort as u64);
    }
    if d.blob_len > 0 {
        let bytes: Vec<u8> = (0..d.blob_len as usize).map(|i| (i as u8).wrapping_mul(31).wrapping_add(uid as u8)).collect();
        t.add_bytes(f.blob, &bytes);
    }
    add_attrs(&mut t, d, f);
    t
}

/// kind of the sort-key field: 0 u64, 1 i64, 2 f64, 3 date, 4 str, 5 bytes
pub fn rich_schema_sorted(kind: u8) -> (Schema, RichFields) {
    let mut sb = Schema::builder();
    let uid = sb.add_u64_field("uid", FAST | INDEXED | STORED);
    let title = sb.add_text_field("title", TEXT | STORED);
    let tag = sb.add_text_field("tag", STRING | STORED | FAST);
    let num = sb.add_i64_field("num", FAST | INDEXED | STORED);
    let f = sb.add_f64_field("f", FAST | STORED);
    let ft_opts = TextOptions::default().set_indexing_options(TextFieldIndexing::default().set_tokenizer("default").set_index_option(IndexRecordOption::WithFreqs));
    let ft = sb.add_text_field("ft", ft_opts);
    let sortkey = match kind {
        0 => sb.add_u64_field("sortkey", FAST | STORED),
        1 => sb.add_i64_field("sortkey", FAST | STORED),
        2 => sb.add_f64_field("sortkey", FAST | STORED),
        3 => sb.add_date_field("sortkey", FAST | STORED),
        4 => sb.add_text_field("sortkey", STRING | FAST | STORED),
        _ => sb.add_bytes_field("sortkey", FAST | STORED),
    };
    let blob = sb.add_bytes_field("blob", STORED);
    let attrs = sb.add_json_field("attrs", TEXT);
    (sb.build(), RichFields { uid, title, tag, num, f, ft, sortkey, blob, attrs })
}

/// Adds the sort value `x` (None = no value) in the representation of `kind`; the mapping is strictly monotone.
pub fn add_sort_value(t: &mut TantivyDocument, f: &RichFields, kind: u8, x: Option<i16>) {
    let Some(x) = x else { return };
    match kind {
        0 => t.add_u64(f.sortkey, match x { i16::MIN => 0, i16::MAX => u64::MAX, v => (v as i64 + 40_000) as u64 }),
        1 => t.add_i64(f.sortkey, match x { i16::MIN => i64::MIN, i16::MAX => i64::MAX, v => v as i64 }),
        2 => t.add_f64(f.sortkey, match x { i16::MIN => f64::NEG_INFINITY, i16::MAX => f64::INFINITY, v => v as f64 * 0.5 }),
        3 => t.add_date(f.sortkey, tantivy::DateTime::from_timestamp_secs(match x { i16::MIN => -8_000_000_000, i16::MAX => 8_000_000_000, v => v as i64 * 3600 })),
        4 => t.add_text(f.sortkey, match x { i16::MIN => String::new(), v => format!("k{:05}", v as i32 + 40_000) }),
        _ => t.add_bytes(f.sortkey, &match x { i16::MIN => vec![], i16::MAX => vec![255u8, 255, 255], v => ((v as i32 + 40_000) as u16).to_be_bytes().to_vec() }),
    }
}

pub fn to_tantivy_sorted(uid: u64, d: &RichDoc, f: &RichFields, kind: u8, x: Option<i16>) -> TantivyDocument {
    let mut t = TantivyDocument::new();
    t.add_u64(f.uid, uid);
    for v in &d.title {
        t.add_text(f.title, words(v));
    }
    for tag in &d.tags {
        t.add_text(f.tag, format!("t{tag}"));
    }
    for n in &d.nums {
        t.add_i64(f.num, *n as i64);
    }
    if let Some(x) = d.f {
        t.add_f64(f.f, x as f64 * 0.5);
    }
    if !d.ft.is_empty() {
        t.add_text(f.ft, words(&d.ft));
    }
    add_sort_value(&mut t, f, kind, x);
    if d.blob_len > 0 {
        let bytes: Vec<u8> = (0..d.blob_len as usize).map(|i| (i as u8).wrapping_mul(31).wrapping_add(uid as u8)).collect();
        t.add_bytes(f.blob, &bytes);
    }
    add_attrs(&mut t, d, f);
    t
}
