//! Shared corpus + query model for the query-semantics checks (C03, C06, C12): a generated corpus, its
//! construction in tantivy under a generated segmentation, a query AST with a translation to tantivy
//! queries and an independent naive evaluator over the model documents.
use std::collections::BTreeSet;
use std::net::Ipv6Addr;
use std::ops::Bound;

use proptest::prelude::*;
use serde::{Deserialize, Serialize};
use tantivy::indexer::NoMergePolicy;
use tantivy::query::*;
use tantivy::schema::*;
use tantivy::{DateTime, Index, IndexSettings, IndexSortByField, IndexWriter, Order, TantivyDocument, Term};

use crate::engine::*;
use crate::util::{writer, WriterCfg};

/// vocabulary of the positional text field; chosen so that prefix / fuzzy / regex leaves have neighbours
pub const VOCAB: [&str; 14] = ["ab", "abc", "abd", "acb", "b", "ba", "bab", "abcd", "xyz", "xy", "abab", "c", "cab", "yz"];
pub const NUM_TAGS: u8 = 5;
pub const NUM_MARKS: u8 = 4;

pub fn word(i: u8) -> String {
    if (i as usize) < VOCAB.len() {
        VOCAB[i as usize].to_string()
    } else {
        format!("m{}", i as usize - VOCAB.len())
    }
}
pub fn all_words() -> Vec<String> {
    (0..VOCAB.len() as u8 + NUM_MARKS).map(word).collect()
}

#[derive(Clone, Debug, PartialEq, Serialize, Deserialize)]
pub struct QDoc {
    /// values of the text field, each a list of word ids
    pub body: Vec<Vec<u8>>,
    pub tags: Vec<u8>,
    pub num: Option<u16>,
    pub inum: Option<i16>,
    pub fnum: Option<i16>,
    pub date: Option<i32>,
    pub ip: Option<u16>,
    pub s: Option<u8>,
}
impl QDoc {
    /// (word id, position) with tantivy's position rule: each value starts one gap after the previous end
    pub fn positions(&self) -> Vec<(u8, u32)> {
        let mut out = vec![];
        let mut end = 0u32;
        for v in &self.body {
            let start = end;
            let mut e = end;
            for (i, w) in v.iter().enumerate() {
                out.push((*w, start + i as u32));
                e = e.max(start + i as u32 + 1);
            }
            end = e + 1;
        }
        out
    }
    pub fn has_word(&self, w: u8) -> bool {
        self.body.iter().any(|v| v.contains(&w))
    }
    pub fn num_tokens(&self) -> u32 {
        self.body.iter().map(|v| v.len() as u32).sum()
    }
    pub fn term_freq(&self, w: u8) -> u32 {
        self.body.iter().map(|v| v.iter().filter(|x| **x == w).count() as u32).sum()
    }
}
pub fn s_val(i: u8) -> String {
    format!("s{:02}", i)
}
pub fn ip_of(x: u16) -> Ipv6Addr {
    std::net::Ipv4Addr::new(10, 0, (x >> 8) as u8, x as u8).to_ipv6_mapped()
}
pub fn date_of(x: i32) -> DateTime {
    DateTime::from_timestamp_secs(1_600_000_000 + x as i64 * 3600)
}

pub fn qdoc_strategy(zipf: bool) -> impl Strategy<Value = QDoc> {
    let w = if zipf {
        prop_oneof![6 => 0u8..3, 3 => 3u8..8, 1 => 8u8..14].boxed()
    } else {
        (0u8..14).boxed()
    };
    (
        prop::collection::vec(prop::collection::vec(w, 0..7), 0..3),
        prop::collection::vec(0..NUM_TAGS, 0..3),
        prop::option::weighted(0.8, 0u16..40),
        prop::option::weighted(0.8, -20i16..20),
        prop::option::weighted(0.7, -20i16..20),
        prop::option::weighted(0.7, 0i32..48),
        prop::option::weighted(0.6, 0u16..600),
        prop::option::weighted(0.7, 0u8..12),
    )
        .prop_map(|(body, tags, num, inum, fnum, date, ip, s)| QDoc { body, tags, num, inum, fnum, date, ip, s })
}

#[derive(Clone, Debug, Serialize, Deserialize)]
pub struct CorpusSpec {
    pub docs: Vec<QDoc>,
    /// replicate the document list (fresh uids) to reach the large size classes cheaply
    pub repeat: u16,
    /// mark word m<i> is appended to the first `count` documents (posting lists of exact lengths)
    pub marks: Vec<u16>,
    /// commit before the documents at these positions (fractions of the corpus)
    pub cuts: Vec<u16>,
    /// uids to delete after indexing (fractions)
    pub deletes: Vec<u16>,
    pub sorted: Option<bool>,
    pub threads: u8,
}

pub fn corpus_strategy(max_repeat: u16) -> impl Strategy<Value = CorpusSpec> {
    let size = prop_oneof![
        4 => (0usize..21, Just(1u16)),
        3 => (30usize..36, 4u16..5),          // 120..140
        2 => (50usize..53, 5u16..6),          // 250..260
        if max_repeat >= 40 { 2 } else { 1 } => (26usize..33, 38u16..41), // ~1000..1300
        if max_repeat >= 160 { 1 } else { 1 } => (27usize..38, (max_repeat.min(160))..(max_repeat.min(160) + 1)), // ~4100..6000 when allowed
    ];
    size.prop_flat_map(move |(n, rep)| {
        (
            prop::collection::vec(qdoc_strategy(true), n..n + 1),
            Just(rep.min(max_repeat.max(1))),
            prop::collection::vec(prop_oneof![2 => Just(0u16), 1 => Just(1u16), 1 => Just(127u16), 2 => Just(128u16), 2 => Just(129u16), 1 => Just(256u16), 1 => Just(1025u16), 1 => Just(4100u16), 1 => Just(u16::MAX)], NUM_MARKS as usize..NUM_MARKS as usize + 1),
            prop::collection::vec(any::<u16>(), 0..6),
            prop::collection::vec(any::<u16>(), 0..10),
            prop_oneof![4 => Just(None), 1 => Just(Some(true)), 1 => Just(Some(false))],
            prop_oneof![3 => Just(1u8), 1 => Just(2u8)],
        )
    })
    .prop_map(|(docs, repeat, marks, cuts, deletes, sorted, threads)| CorpusSpec { docs, repeat, marks, cuts, deletes, sorted, threads })
}

pub struct QFields {
    pub uid: Field,
    pub body: Field,
    pub tag: Field,
    pub num: Field,
    pub inum: Field,
    pub fnum: Field,
    pub date: Field,
    pub ip: Field,
    pub s: Field,
    /// u64 fast field, multi-valued: the value of `num`, and for every third value a second one (num + 1) after it
    pub mnum: Field,
    /// the body text once more, indexed with term frequencies but without field norms
    pub bnf: Field,
    /// JSON fast field {"v": json_v(uid, doc)}: non-negative integers, many of them above 2^53 and closer to each other
    /// than the f64 spacing, some above i64::MAX (the column type then differs from segment to segment: i64 / u64)
    pub attrs: Field,
}

/// the value of `attrs.v`: blocks of 16 consecutive uids share a magnitude class, the offset comes from `num`
pub fn json_v(uid: u64, d: &QDoc) -> u64 {
    let k = d.num.map(|n| (n as u64) % 5).unwrap_or(3);
    match (uid / 16) % 4 {
        0 => (1u64 << 60) + k,
        1 => (1u64 << 63) + (1u64 << 60) + k,
        2 => (uid % 7) * 3 + k,
        _ => (1u64 << 60) + 2 + k,
    }
}
pub fn q_schema() -> (Schema, QFields) {
    let mut sb = Schema::builder();
    let uid = sb.add_u64_field("uid", FAST | INDEXED | STORED);
    let body = sb.add_text_field("body", TEXT);
    let tag = sb.add_text_field("tag", STRING | FAST);
    let num = sb.add_u64_field("num", FAST | INDEXED);
    let inum = sb.add_i64_field("inum", INDEXED);
    let fnum = sb.add_f64_field("fnum", FAST | INDEXED);
    let date = sb.add_date_field("date", FAST | INDEXED);
    let ip = sb.add_ip_addr_field("ip", FAST | INDEXED);
    let s = sb.add_text_field("s", STRING | FAST);
    let mnum = sb.add_u64_field("mnum", FAST);
    let bnf = sb.add_text_field(
        "bnf",
        TextOptions::default().set_indexing_options(TextFieldIndexing::default().set_tokenizer("default").set_fieldnorms(false).set_index_option(IndexRecordOption::WithFreqs)),
    );
    let attrs = sb.add_json_field("attrs", JsonObjectOptions::default().set_fast(None));
    (sb.build(), QFields { uid, body, tag, num, inum, fnum, date, ip, s, mnum, bnf, attrs })
}

/// The materialised corpus: model documents (with uid) and liveness.
pub struct Corpus {
    pub index: Index,
    pub f: QFields,
    pub docs: Vec<(u64, QDoc)>,
    pub deleted: BTreeSet<u64>,
    pub writer: IndexWriter,
    pub num_segments: usize,
}
impl Corpus {
    pub fn live(&self) -> impl Iterator<Item = &(u64, QDoc)> {
        self.docs.iter().filter(|(u, _)| !self.deleted.contains(u))
    }
    pub fn num_live(&self) -> usize {
        self.docs.len() - self.deleted.len()
    }
}

pub fn to_doc(uid: u64, d: &QDoc, f: &QFields) -> TantivyDocument {
    let mut t = TantivyDocument::new();
    t.add_u64(f.uid, uid);
    for v in &d.body {
        let text = v.iter().map(|w| word(*w)).collect::<Vec<_>>().join(" ");
        t.add_text(f.bnf, &text);
        t.add_text(f.body, text);
    }
    for tag in &d.tags {
        t.add_text(f.tag, format!("t{tag}"));
    }
    if let Some(n) = d.num {
        t.add_u64(f.num, n as u64);
        t.add_u64(f.mnum, n as u64);
        if n % 3 == 0 {
            t.add_u64(f.mnum, n as u64 + 1);
        }
    }
    if let Some(n) = d.inum {
        t.add_i64(f.inum, n as i64);
    }
    if let Some(n) = d.fnum {
        t.add_f64(f.fnum, n as f64 * 0.5);
    }
    if let Some(n) = d.date {
        t.add_date(f.date, date_of(n));
    }
    if let Some(n) = d.ip {
        t.add_ip_addr(f.ip, ip_of(n));
    }
    if let Some(n) = d.s {
        t.add_text(f.s, s_val(n));
    }
    t.add_object(f.attrs, std::iter::once(("v".to_string(), OwnedValue::U64(json_v(uid, d)))).collect());
    t
}

pub fn build_corpus(spec: &CorpusSpec) -> Result<Corpus, Failure> {
    let (schema, f) = q_schema();
    let settings = IndexSettings {
        sort_by_field: spec.sorted.map(|asc| IndexSortByField { field: "uid".into(), order: if asc { Order::Asc } else { Order::Desc } }),
        ..Default::default()
    };
    let index = Index::builder().schema(schema).settings(settings).create_in_ram().or_fail("INFRA:create")?;
    let w = writer(&index, WriterCfg { threads: spec.threads.max(1) as usize, ..Default::default() }).or_fail("INFRA:writer")?;
    w.set_merge_policy(Box::new(NoMergePolicy));
    let mut w = w;
    // model documents
    let mut docs: Vec<(u64, QDoc)> = vec![];
    for _ in 0..spec.repeat.max(1) {
        for d in &spec.docs {
            docs.push((docs.len() as u64, d.clone()));
        }
    }
    for (mi, count) in spec.marks.iter().enumerate() {
        let n = (*count as usize).min(docs.len());
        for (_, d) in docs.iter_mut().take(n) {
            if d.body.is_empty() {
                d.body.push(vec![]);
            }
            d.body[0].push(VOCAB.len() as u8 + mi as u8);
        }
    }
    let n = docs.len();
    let cutset: BTreeSet<usize> = spec.cuts.iter().map(|c| idx(*c, n.max(1))).collect();
    for (i, (uid, d)) in docs.iter().enumerate() {
        if i > 0 && cutset.contains(&i) {
            w.commit().or_fail("commit_failed")?;
        }
        w.add_document(to_doc(*uid, d, &f)).or_fail("add_failed")?;
    }
    w.commit().or_fail("commit_failed")?;
    let mut deleted = BTreeSet::new();
    if n > 0 {
        for raw in &spec.deletes {
            let u = idx(*raw, n) as u64;
            deleted.insert(u);
            w.delete_term(Term::from_field_u64(f.uid, u));
        }
        if !spec.deletes.is_empty() {
            w.commit().or_fail("commit_failed")?;
        }
    }
    let num_segments = index.searchable_segment_ids().or_fail("segment_ids")?.len();
    Ok(Corpus { index, f, docs, deleted, writer: w, num_segments })
}

// ------------------------------------------------------------------------------------------------
// query AST

#[derive(Clone, Copy, Debug, PartialEq, Eq, Serialize, Deserialize)]
pub enum RField {
    /// u64 fast + indexed
    Num,
    /// i64 indexed only (term dictionary range)
    Inum,
    Fnum,
    Date,
    Ip,
    /// raw string, fast
    S,
}
#[derive(Clone, Copy, Debug, PartialEq, Serialize, Deserialize)]
pub enum B {
    Unbounded,
    Incl(i32),
    Excl(i32),
}
#[derive(Clone, Debug, PartialEq, Serialize, Deserialize)]
pub enum Q {
    /// term on body; record option 0 basic, 1 freqs, 2 positions
    Term(u8, u8),
    /// term (with frequencies) on `bnf`: the body text indexed with frequencies but without field norms
    TermNf(u8),
    Tag(u8),
    Phrase { words: Vec<u8>, slop: u8 },
    /// phrase whose last element is a prefix (index into PREFIXES)
    PhrasePrefix { words: Vec<u8>, prefix: u8 },
    Range(RField, B, B),
    TermSetBody(Vec<u8>),
    TermSetTag(Vec<u8>),
    Exists(RField),
    ExistsTag,
    All,
    Empty,
    Fuzzy { word: u8, distance: u8, transposition: bool, prefix: bool },
    Regex(u8),
    Boost(Box<Q>, u8),
    Const(Box<Q>, u8),
    DisMax(Vec<Q>, u8),
    /// (occur 0 must / 1 should / 2 must-not, query), minimum_number_should_match (None = BooleanQuery::new)
    Bool(Vec<(u8, Q)>, Option<u8>),
}
pub const PREFIXES: [&str; 6] = ["a", "ab", "abc", "b", "x", "m"];
pub const REGEXES: [&str; 10] = ["ab.*", "a[bc]+", "(ab|ba)c?", ".*b", "ab", "x.z", "m[0-2]", "[a-c]{1,2}", "(ab)+", "y?z|c"];

pub fn leaf_strategy() -> BoxedStrategy<Q> {
    let w = || prop_oneof![5 => 0u8..4, 3 => 4u8..14, 2 => 14u8..18];
    let bound = |lo: i32, hi: i32| prop_oneof![1 => Just(B::Unbounded), 3 => (lo..hi).prop_map(B::Incl), 2 => (lo..hi).prop_map(B::Excl)];
    let rfield = prop_oneof![3 => Just(RField::Num), 2 => Just(RField::Inum), 2 => Just(RField::Fnum), 1 => Just(RField::Date), 1 => Just(RField::Ip), 1 => Just(RField::S)];
    prop_oneof![
        10 => (w(), 0u8..3).prop_map(|(a, b)| Q::Term(a, b)),
        3 => (0..NUM_TAGS).prop_map(Q::Tag),
        1 => w().prop_map(Q::TermNf),
        4 => (prop::collection::vec(0u8..6, 2..5), 0u8..4).prop_map(|(words, slop)| Q::Phrase { words, slop }),
        2 => (prop::collection::vec(0u8..6, 1..3), 0u8..PREFIXES.len() as u8).prop_map(|(words, prefix)| Q::PhrasePrefix { words, prefix }),
        5 => (rfield.clone(), bound(-25, 45), bound(-25, 45)).prop_map(|(f, a, b)| Q::Range(f, a, b)),
        2 => prop::collection::vec(w(), 0..5).prop_map(Q::TermSetBody),
        1 => prop::collection::vec(0..NUM_TAGS + 1, 0..4).prop_map(Q::TermSetTag),
        2 => rfield.prop_map(Q::Exists),
        1 => Just(Q::ExistsTag),
        1 => Just(Q::All),
        1 => Just(Q::Empty),
        3 => (0u8..14, 0u8..3, any::<bool>(), any::<bool>()).prop_map(|(word, distance, transposition, prefix)| Q::Fuzzy { word, distance, transposition, prefix }),
        2 => (0u8..REGEXES.len() as u8).prop_map(Q::Regex),
    ]
    .boxed()
}

pub fn query_strategy(depth: u32) -> BoxedStrategy<Q> {
    leaf_strategy()
        .prop_recursive(depth, 40, 6, |inner| {
            prop_oneof![
                8 => (prop::collection::vec((prop_oneof![3 => Just(0u8), 4 => Just(1u8), 2 => Just(2u8)], inner.clone()), 1..6), prop::option::weighted(0.4, 0u8..5)).prop_map(|(c, m)| Q::Bool(c, m)),
                1 => (inner.clone(), 1u8..6).prop_map(|(q, b)| Q::Boost(Box::new(q), b)),
                1 => (inner.clone(), 1u8..6).prop_map(|(q, b)| Q::Const(Box::new(q), b)),
                1 => (prop::collection::vec(inner, 1..4), 0u8..5).prop_map(|(qs, t)| Q::DisMax(qs, t)),
            ]
        })
        .boxed()
}

fn body_term(f: &QFields, w: u8) -> Term {
    Term::from_field_text(f.body, &word(w))
}

fn range_term(f: &QFields, rf: RField, v: i32) -> Option<Term> {
    Some(match rf {
        RField::Num => {
            if v < 0 {
                return None;
            }
            Term::from_field_u64(f.num, v as u64)
        }
        RField::Inum => Term::from_field_i64(f.inum, v as i64),
        RField::Fnum => Term::from_field_f64(f.fnum, v as f64 * 0.5),
        RField::Date => Term::from_field_date(f.date, date_of(v)),
        RField::Ip => {
            if v < 0 {
                return None;
            }
            Term::from_field_ip_addr(f.ip, ip_of((v as u16) * 13))
        }
        RField::S => {
            if v < 0 {
                return None;
            }
            Term::from_field_text(f.s, &s_val((v % 14) as u8))
        }
    })
}
/// the comparable value of a document for a range field, in the same integer domain as the bounds
fn range_doc_value(d: &QDoc, rf: RField) -> Option<i64> {
    match rf {
        RField::Num => d.num.map(|x| x as i64),
        RField::Inum => d.inum.map(|x| x as i64),
        RField::Fnum => d.fnum.map(|x| x as i64),
        RField::Date => d.date.map(|x| x as i64),
        // bounds are ip_of(v*13): compare raw u16 against v*13
        RField::Ip => d.ip.map(|x| x as i64),
        RField::S => d.s.map(|x| x as i64),
    }
}
fn bound_value(rf: RField, v: i32) -> i64 {
    match rf {
        RField::Ip => (v as u16 as i64) * 13,
        RField::S => (v % 14) as i64,
        _ => v as i64,
    }
}

/// Why a query (sub)tree is not generated as-is: returns a reason if the leaf must be rewritten.
pub struct BuildCtx<'a> {
    pub f: &'a QFields,
    /// restrict sloppy phrases to two distinct terms (known finding C03 slop semantics)
    pub restrict_slop: bool,
    /// turn prefix-fuzzy leaves with distance > 0 into plain fuzzy leaves (known finding: the prefix
    /// Levenshtein automaton rejects some terms that have a prefix within the distance)
    pub restrict_fuzzy_prefix: bool,
    pub excluded: std::cell::RefCell<Vec<&'static str>>,
}

/// Normalises a query so that it lies in the domain with documented semantics (returns the query that is
/// actually built *and* evaluated).  Exclusions are recorded in `cx.excluded`.
pub fn normalise(q: &Q, cx: &BuildCtx) -> Q {
    match q {
        Q::Phrase { words, slop } => {
            let mut distinct = words.clone();
            distinct.sort();
            distinct.dedup();
            let mut slop = *slop;
            if slop > 0 && distinct.len() != words.len() {
                // repeated terms with slop have no documented meaning
                cx.excluded.borrow_mut().push("phrase_slop_repeated_terms");
                slop = 0;
            }
            if slop > 0 && words.len() > 2 && cx.restrict_slop {
                cx.excluded.borrow_mut().push("phrase_slop_three_or_more_terms");
                slop = 0;
            }
            Q::Phrase { words: words.clone(), slop }
        }
        Q::Fuzzy { word, distance, transposition, prefix } => {
            if *prefix && *distance > 0 && cx.restrict_fuzzy_prefix {
                cx.excluded.borrow_mut().push("fuzzy_prefix_with_distance(prefix flag dropped)");
                Q::Fuzzy { word: *word, distance: *distance, transposition: *transposition, prefix: false }
            } else {
                q.clone()
            }
        }
        Q::Range(rf, a, b) => {
            let fix = |x: &B| match x {
                B::Incl(v) | B::Excl(v) if range_term(cx.f, *rf, *v).is_none() => B::Unbounded,
                o => *o,
            };
            Q::Range(*rf, fix(a), fix(b))
        }
        Q::Boost(q, b) => Q::Boost(Box::new(normalise(q, cx)), *b),
        Q::Const(q, b) => Q::Const(Box::new(normalise(q, cx)), *b),
        Q::DisMax(qs, t) => Q::DisMax(qs.iter().map(|q| normalise(q, cx)).collect(), *t),
        Q::Bool(cl, m) => Q::Bool(cl.iter().map(|(o, q)| (*o, normalise(q, cx))).collect(), *m),
        o => o.clone(),
    }
}

pub fn build_query(q: &Q, f: &QFields) -> Result<Box<dyn Query>, Failure> {
    Ok(match q {
        Q::Term(w, opt) => Box::new(TermQuery::new(
            body_term(f, *w),
            match opt {
                0 => IndexRecordOption::Basic,
                1 => IndexRecordOption::WithFreqs,
                _ => IndexRecordOption::WithFreqsAndPositions,
            },
        )),
        Q::Tag(t) => Box::new(TermQuery::new(Term::from_field_text(f.tag, &format!("t{t}")), IndexRecordOption::Basic)),
        Q::TermNf(w) => Box::new(TermQuery::new(Term::from_field_text(f.bnf, &word(*w)), IndexRecordOption::WithFreqs)),
        Q::Phrase { words, slop } => {
            let mut p = PhraseQuery::new(words.iter().map(|w| body_term(f, *w)).collect());
            p.set_slop(*slop as u32);
            Box::new(p)
        }
        Q::PhrasePrefix { words, prefix } => {
            let mut terms: Vec<Term> = words.iter().map(|w| body_term(f, *w)).collect();
            terms.push(Term::from_field_text(f.body, PREFIXES[*prefix as usize]));
            let mut p = PhrasePrefixQuery::new(terms);
            p.set_max_expansions(10_000);
            Box::new(p)
        }
        Q::Range(rf, a, b) => {
            let mk = |x: &B| match x {
                B::Unbounded => Bound::Unbounded,
                B::Incl(v) => Bound::Included(range_term(f, *rf, *v).unwrap()),
                B::Excl(v) => Bound::Excluded(range_term(f, *rf, *v).unwrap()),
            };
            match (a, b) {
                (B::Unbounded, B::Unbounded) => {
                    // RangeQuery needs a term to know its field: an unbounded range on a field is `exists`-like;
                    // use an explicit full range through a bound that cannot exclude anything
                    let field_name = rfield_name(*rf);
                    if *rf == RField::Inum {
                        // not a fast field: no exists query; fall back to a very wide range
                        Box::new(RangeQuery::new(Bound::Included(Term::from_field_i64(f.inum, i64::MIN)), Bound::Included(Term::from_field_i64(f.inum, i64::MAX))))
                    } else {
                        Box::new(ExistsQuery::new(field_name.to_string(), false))
                    }
                }
                _ => Box::new(RangeQuery::new(mk(a), mk(b))),
            }
        }
        Q::TermSetBody(ws) => Box::new(TermSetQuery::new(ws.iter().map(|w| body_term(f, *w)))),
        Q::TermSetTag(ts) => Box::new(TermSetQuery::new(ts.iter().map(|t| Term::from_field_text(f.tag, &format!("t{t}"))))),
        Q::Exists(rf) => {
            if *rf == RField::Inum {
                Box::new(RangeQuery::new(Bound::Included(Term::from_field_i64(f.inum, i64::MIN)), Bound::Included(Term::from_field_i64(f.inum, i64::MAX))))
            } else {
                Box::new(ExistsQuery::new(rfield_name(*rf).to_string(), false))
            }
        }
        Q::ExistsTag => Box::new(ExistsQuery::new("tag".to_string(), false)),
        Q::All => Box::new(AllQuery),
        Q::Empty => Box::new(EmptyQuery),
        Q::Fuzzy { word: w, distance, transposition, prefix } => {
            if *prefix {
                Box::new(FuzzyTermQuery::new_prefix(body_term(f, *w), *distance, *transposition))
            } else {
                Box::new(FuzzyTermQuery::new(body_term(f, *w), *distance, *transposition))
            }
        }
        Q::Regex(i) => Box::new(RegexQuery::from_pattern(REGEXES[*i as usize], f.body).or_fail("regex_query_rejected")?),
        // (b >= 200: a negative boost, -0.5 * (b - 199): demotion)
        Q::Boost(q, b) => Box::new(BoostQuery::new(build_query(q, f)?, if *b >= 200 { -0.5 * (*b - 199) as f32 } else { *b as f32 * 0.5 })),
        Q::Const(q, b) => Box::new(ConstScoreQuery::new(build_query(q, f)?, *b as f32 * 0.75)),
        Q::DisMax(qs, t) => {
            let subs: Result<Vec<Box<dyn Query>>, Failure> = qs.iter().map(|q| build_query(q, f)).collect();
            Box::new(DisjunctionMaxQuery::with_tie_breaker(subs?, *t as f32 * 0.25))
        }
        Q::Bool(cl, m) => {
            let mut subs: Vec<(Occur, Box<dyn Query>)> = vec![];
            for (o, q) in cl {
                subs.push((
                    match o {
                        0 => Occur::Must,
                        1 => Occur::Should,
                        _ => Occur::MustNot,
                    },
                    build_query(q, f)?,
                ));
            }
            match m {
                Some(m) => Box::new(BooleanQuery::with_minimum_required_clauses(subs, *m as usize)),
                None => Box::new(BooleanQuery::new(subs)),
            }
        }
    })
}
pub fn rfield_name(rf: RField) -> &'static str {
    match rf {
        RField::Num => "num",
        RField::Inum => "inum",
        RField::Fnum => "fnum",
        RField::Date => "date",
        RField::Ip => "ip",
        RField::S => "s",
    }
}

// ------------------------------------------------------------------------------------------------
// naive evaluator

/// Levenshtein distance; `transposition` = adjacent transposition costs 1 (restricted Damerau / OSA).
pub fn edit_distance(a: &[u8], b: &[u8], transposition: bool) -> usize {
    let (n, m) = (a.len(), b.len());
    let mut d = vec![vec![0usize; m + 1]; n + 1];
    for (i, row) in d.iter_mut().enumerate() {
        row[0] = i;
    }
    for j in 0..=m {
        d[0][j] = j;
    }
    for i in 1..=n {
        for j in 1..=m {
            let cost = if a[i - 1] == b[j - 1] { 0 } else { 1 };
            let mut v = (d[i - 1][j] + 1).min(d[i][j - 1] + 1).min(d[i - 1][j - 1] + cost);
            if transposition && i > 1 && j > 1 && a[i - 1] == b[j - 2] && a[i - 2] == b[j - 1] {
                v = v.min(d[i - 2][j - 2] + 1);
            }
            d[i][j] = v;
        }
    }
    d[n][m]
}
/// unrestricted Damerau-Levenshtein (for detecting the cases where the two notions of "transposition
/// costs one" disagree; those are excluded)
pub fn damerau_unrestricted(a: &[u8], b: &[u8]) -> usize {
    let (n, m) = (a.len(), b.len());
    let maxd = n + m;
    let mut da = [0usize; 256];
    let mut d = vec![vec![0usize; m + 2]; n + 2];
    d[0][0] = maxd;
    for i in 0..=n {
        d[i + 1][0] = maxd;
        d[i + 1][1] = i;
    }
    for j in 0..=m {
        d[0][j + 1] = maxd;
        d[1][j + 1] = j;
    }
    for i in 1..=n {
        let mut db = 0;
        for j in 1..=m {
            let i1 = da[b[j - 1] as usize];
            let j1 = db;
            let cost = if a[i - 1] == b[j - 1] {
                db = j;
                0
            } else {
                1
            };
            d[i + 1][j + 1] = (d[i][j] + cost).min(d[i + 1][j] + 1).min(d[i][j + 1] + 1).min(d[i1][j1] + (i - i1 - 1) + 1 + (j - j1 - 1));
        }
        da[a[i - 1] as usize] = i;
    }
    d[n + 1][m + 1]
}
pub fn fuzzy_matches(query: &str, term: &str, distance: u8, transposition: bool, prefix: bool) -> Option<bool> {
    let q = query.as_bytes();
    let t = term.as_bytes();
    let candidates: Vec<&[u8]> = if prefix { (0..=t.len()).map(|k| &t[..k]).collect() } else { vec![t] };
    let mut res = false;
    for c in candidates {
        let d1 = edit_distance(q, c, transposition);
        if transposition {
            let d2 = damerau_unrestricted(q, c);
            if (d1 <= distance as usize) != (d2 <= distance as usize) {
                return None; // ambiguous notion of transposition: excluded
            }
        }
        if d1 <= distance as usize {
            res = true;
        }
    }
    Some(res)
}

pub struct Evaluator {
    regexes: Vec<regex::Regex>,
    words: Vec<String>,
}
impl Default for Evaluator {
    fn default() -> Self {
        Evaluator::new()
    }
}
impl Evaluator {
    pub fn new() -> Evaluator {
        Evaluator { regexes: REGEXES.iter().map(|p| regex::Regex::new(&format!("^(?:{p})$")).unwrap()).collect(), words: all_words() }
    }
    /// word ids matched by a fuzzy leaf; None if the leaf is ambiguous (excluded)
    pub fn fuzzy_words(&self, w: u8, distance: u8, transposition: bool, prefix: bool) -> Option<Vec<u8>> {
        let q = word(w);
        let mut out = vec![];
        for (i, t) in self.words.iter().enumerate() {
            if fuzzy_matches(&q, t, distance, transposition, prefix)? {
                out.push(i as u8);
            }
        }
        Some(out)
    }
    pub fn regex_words(&self, i: u8) -> Vec<u8> {
        self.words.iter().enumerate().filter(|(_, t)| self.regexes[i as usize].is_match(t)).map(|(i, _)| i as u8).collect()
    }
    pub fn prefix_words(&self, p: u8) -> Vec<u8> {
        self.words.iter().enumerate().filter(|(_, t)| t.starts_with(PREFIXES[p as usize])).map(|(i, _)| i as u8).collect()
    }

    pub fn matches(&self, q: &Q, d: &QDoc) -> bool {
        match q {
            Q::Term(w, _) => d.has_word(*w),
            Q::Tag(t) => d.tags.contains(t),
            Q::TermNf(w) => d.has_word(*w),
            Q::Phrase { words, slop } => phrase_match(&d.positions(), &words.iter().map(|w| vec![*w]).collect::<Vec<_>>(), *slop as i64),
            Q::PhrasePrefix { words, prefix } => {
                let mut alts: Vec<Vec<u8>> = words.iter().map(|w| vec![*w]).collect();
                alts.push(self.prefix_words(*prefix));
                phrase_match(&d.positions(), &alts, 0)
            }
            Q::Range(rf, a, b) => match range_doc_value(d, *rf) {
                None => false,
                Some(v) => {
                    let lo = match a {
                        B::Unbounded => true,
                        B::Incl(x) => v >= bound_value(*rf, *x),
                        B::Excl(x) => v > bound_value(*rf, *x),
                    };
                    let hi = match b {
                        B::Unbounded => true,
                        B::Incl(x) => v <= bound_value(*rf, *x),
                        B::Excl(x) => v < bound_value(*rf, *x),
                    };
                    lo && hi
                }
            },
            Q::TermSetBody(ws) => ws.iter().any(|w| d.has_word(*w)),
            Q::TermSetTag(ts) => ts.iter().any(|t| d.tags.contains(t)),
            Q::Exists(rf) => range_doc_value(d, *rf).is_some(),
            Q::ExistsTag => !d.tags.is_empty(),
            Q::All => true,
            Q::Empty => false,
            Q::Fuzzy { word: w, distance, transposition, prefix } => self.fuzzy_words(*w, *distance, *transposition, *prefix).unwrap_or_default().iter().any(|x| d.has_word(*x)),
            Q::Regex(i) => self.regex_words(*i).iter().any(|x| d.has_word(*x)),
            Q::Boost(q, _) | Q::Const(q, _) => self.matches(q, d),
            Q::DisMax(qs, _) => qs.iter().any(|q| self.matches(q, d)),
            Q::Bool(cl, m) => {
                let min = match m {
                    Some(m) => *m as usize,
                    None => {
                        // BooleanQuery::new: 1 if there are only should clauses, else 0
                        if !cl.is_empty() && cl.iter().all(|c| c.0 == 1) {
                            1
                        } else {
                            0
                        }
                    }
                };
                let mut nmust = 0;
                let mut nshould_match = 0;
                for (o, q) in cl {
                    match o {
                        0 => {
                            nmust += 1;
                            if !self.matches(q, d) {
                                return false;
                            }
                        }
                        1 => {
                            if self.matches(q, d) {
                                nshould_match += 1;
                            }
                        }
                        _ => {
                            if self.matches(q, d) {
                                return false;
                            }
                        }
                    }
                }
                if nshould_match < min {
                    return false;
                }
                // a boolean query needs at least one positive clause to match
                nmust > 0 || nshould_match > 0
            }
        }
    }
    /// true if the query contains a leaf whose reference semantics are ambiguous (to be excluded)
    pub fn ambiguous(&self, q: &Q) -> bool {
        match q {
            Q::Fuzzy { word: w, distance, transposition, prefix } => self.fuzzy_words(*w, *distance, *transposition, *prefix).is_none(),
            Q::Boost(q, _) | Q::Const(q, _) => self.ambiguous(q),
            Q::DisMax(qs, _) => qs.iter().any(|q| self.ambiguous(q)),
            Q::Bool(cl, _) => cl.iter().any(|(_, q)| self.ambiguous(q)),
            _ => false,
        }
    }
}

/// Documented phrase semantics: there are positions p_i of the phrase elements (element i may be any word of
/// `alts[i]`) with sum_i |(p_{i+1} - (i+1)) - (p_i - i)| <= slop.
pub fn phrase_match(positions: &[(u8, u32)], alts: &[Vec<u8>], slop: i64) -> bool {
    fn rec(positions: &[(u8, u32)], alts: &[Vec<u8>], i: usize, prev_adj: Option<i64>, cost: i64, slop: i64) -> bool {
        if cost > slop {
            return false;
        }
        if i == alts.len() {
            return true;
        }
        for (w, p) in positions {
            if alts[i].contains(w) {
                let adj = *p as i64 - i as i64;
                let c = match prev_adj {
                    None => 0,
                    Some(a) => (adj - a).abs(),
                };
                if rec(positions, alts, i + 1, Some(adj), cost + c, slop) {
                    return true;
                }
            }
        }
        false
    }
    rec(positions, alts, 0, None, 0, slop)
}

/// structural label of a boolean query (for the evidence histogram)
pub fn shape_labels(q: &Q, out: &mut BTreeSet<String>) {
    match q {
        Q::Bool(cl, m) => {
            let nm = cl.iter().filter(|c| c.0 == 0).count();
            let ns = cl.iter().filter(|c| c.0 == 1).count();
            let nn = cl.iter().filter(|c| c.0 == 2).count();
            let all_terms = cl.iter().all(|c| matches!(c.1, Q::Term(..) | Q::Tag(_) | Q::TermNf(_)));
            if ns >= 2 && nm == 0 && nn == 0 {
                out.insert(if all_terms { "bool:term_union".into() } else { "bool:union".into() });
            }
            if nm >= 2 && ns == 0 {
                out.insert(if all_terms { "bool:term_intersection".into() } else { "bool:intersection".into() });
            }
            if nm >= 1 && ns >= 1 {
                out.insert("bool:must+should".into());
            }
            if nn >= 2 {
                out.insert("bool:multi_exclude".into());
            } else if nn == 1 {
                out.insert("bool:exclude".into());
            }
            if nm == 0 && ns == 0 && nn > 0 {
                out.insert("bool:only_negative".into());
            }
            if cl.len() == 1 {
                out.insert("bool:single_clause".into());
            }
            if let Some(m) = m {
                let m = *m as usize;
                if m >= 2 && m <= ns {
                    out.insert("bool:min_should_match>=2".into());
                }
                if m > ns {
                    out.insert("bool:min_should_match>should".into());
                }
                if m == ns && ns > 0 {
                    out.insert("bool:should_promoted".into());
                }
            }
            if cl.iter().any(|c| matches!(c.1, Q::All)) {
                out.insert("bool:with_all".into());
            }
            if cl.iter().any(|c| matches!(c.1, Q::Empty)) {
                out.insert("bool:with_empty".into());
            }
            for (_, q) in cl {
                shape_labels(q, out);
            }
        }
        Q::Boost(q, _) | Q::Const(q, _) => shape_labels(q, out),
        Q::DisMax(qs, _) => {
            out.insert("dismax".into());
            for q in qs {
                shape_labels(q, out);
            }
        }
        Q::Term(..) => {
            out.insert("leaf:term".into());
        }
        Q::Tag(_) => {
            out.insert("leaf:tag".into());
        }
        Q::TermNf(_) => {
            out.insert("leaf:term_no_fieldnorms".into());
        }
        Q::Phrase { slop, .. } => {
            out.insert(if *slop > 0 { "leaf:phrase_slop".into() } else { "leaf:phrase".into() });
        }
        Q::PhrasePrefix { .. } => {
            out.insert("leaf:phrase_prefix".into());
        }
        Q::Range(rf, ..) => {
            out.insert(format!("leaf:range:{}", rfield_name(*rf)));
        }
        Q::TermSetBody(_) | Q::TermSetTag(_) => {
            out.insert("leaf:term_set".into());
        }
        Q::Exists(_) | Q::ExistsTag => {
            out.insert("leaf:exists".into());
        }
        Q::All => {
            out.insert("leaf:all".into());
        }
        Q::Empty => {
            out.insert("leaf:empty".into());
        }
        Q::Fuzzy { .. } => {
            out.insert("leaf:fuzzy".into());
        }
        Q::Regex(_) => {
            out.insert("leaf:regex".into());
        }
    }
}
