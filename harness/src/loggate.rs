//! Log points as schedule points: tantivy's `log` statements (e.g. "Running garbage collection", issued by whatever
//! thread is about to collect, before it takes any lock) can hold the calling thread for a bounded time.  A process-wide
//! `log::Log` implementation; it is inert (`enabled()` is false) unless a gate is armed.  Steering only.
use std::sync::atomic::{AtomicUsize, Ordering};
use std::sync::{Condvar, Mutex, Once};
use std::time::{Duration, Instant};

struct Gate {
    thread_prefix: String,
    msg_prefix: String,
    max_hold: Duration,
    reached: bool,
    released: bool,
    done: bool,
}
static GATES: Mutex<Vec<Gate>> = Mutex::new(Vec::new());
static CV: Condvar = Condvar::new();
static ARMED: AtomicUsize = AtomicUsize::new(0);
static INSTALL: Once = Once::new();

struct Logger;
static LOGGER: Logger = Logger;
impl log::Log for Logger {
    fn enabled(&self, m: &log::Metadata) -> bool {
        ARMED.load(Ordering::Relaxed) > 0 && m.level() <= log::Level::Info
    }
    fn log(&self, record: &log::Record) {
        if ARMED.load(Ordering::Relaxed) == 0 {
            return;
        }
        let msg = format!("{}", record.args());
        let thread = std::thread::current().name().unwrap_or("").to_string();
        let mut g = GATES.lock().unwrap();
        let Some(i) = g.iter().position(|x| !x.done && !x.reached && thread.starts_with(&x.thread_prefix) && msg.starts_with(&x.msg_prefix)) else { return };
        g[i].reached = true;
        CV.notify_all();
        let deadline = Instant::now() + g[i].max_hold;
        while !g[i].released {
            let now = Instant::now();
            if now >= deadline {
                break;
            }
            g = CV.wait_timeout(g, (deadline - now).min(Duration::from_millis(10))).unwrap().0;
        }
        g[i].done = true;
        ARMED.fetch_sub(1, Ordering::Relaxed);
    }
    fn flush(&self) {}
}

/// arms a gate: the first thread whose name starts with `thread_prefix` and that logs a message starting with `msg_prefix`
/// is held until `release` / `disarm` or for `max_hold`
pub fn arm(thread_prefix: &str, msg_prefix: &str, max_hold: Duration) -> usize {
    INSTALL.call_once(|| {
        let _ = log::set_logger(&LOGGER);
        log::set_max_level(log::LevelFilter::Info);
    });
    let mut g = GATES.lock().unwrap();
    g.push(Gate { thread_prefix: thread_prefix.into(), msg_prefix: msg_prefix.into(), max_hold, reached: false, released: false, done: false });
    ARMED.fetch_add(1, Ordering::Relaxed);
    g.len() - 1
}
pub fn wait_reached(id: usize, timeout: Duration) -> bool {
    let deadline = Instant::now() + timeout;
    let mut g = GATES.lock().unwrap();
    while !g[id].reached {
        let now = Instant::now();
        if now >= deadline {
            return false;
        }
        g = CV.wait_timeout(g, deadline - now).unwrap().0;
    }
    true
}
pub fn release(id: usize) {
    let mut g = GATES.lock().unwrap();
    g[id].released = true;
    CV.notify_all();
}
/// releases the gate and makes sure it never holds anything
pub fn disarm(id: usize) {
    let mut g = GATES.lock().unwrap();
    g[id].released = true;
    if !g[id].reached && !g[id].done {
        g[id].done = true;
        ARMED.fetch_sub(1, Ordering::Relaxed);
    }
    CV.notify_all();
}
