use std::path::PathBuf;
use tvv::engine::{self, Tier};

fn usage() -> ! {
    eprintln!("usage: tvv run <Cxx> quick|thorough | tvv replay <file> | tvv list | tvv child <args…>");
    std::process::exit(2)
}

fn main() {
    let args: Vec<String> = std::env::args().collect();
    if args.len() < 2 {
        usage();
    }
    let verif_root = PathBuf::from(std::env::var("VERIF_ROOT").unwrap_or_else(|_| "/verif".to_string()));
    match args[1].as_str() {
        "list" => {
            for d in tvv::all_props() {
                println!("{} level={} subs={:?}", d.id, d.level, d.subs.iter().map(|s| s.name()).collect::<Vec<_>>());
            }
        }
        "run" => {
            if args.len() < 4 {
                usage();
            }
            let tier = match args[3].as_str() {
                "quick" => Tier::Quick,
                "thorough" => Tier::Thorough,
                _ => usage(),
            };
            let seed: u64 = std::env::var("VERIF_SEED").ok().and_then(|s| s.trim().parse::<i64>().ok()).map(|v| v as u64).unwrap_or(0);
            engine::install_panic_hook();
            // overall watchdog: a hang is reported as inconclusive (exit 2), never as a violation
            let budget_s: u64 = std::env::var("TVV_WATCHDOG_S").ok().and_then(|s| s.parse().ok()).unwrap_or(tier.pick(1500, 4 * 3600));
            let id = args[2].clone();
            std::thread::spawn(move || {
                std::thread::sleep(std::time::Duration::from_secs(budget_s));
                println!("INCONCLUSIVE property={id} watchdog expired after {budget_s}s");
                std::process::exit(2);
            });
            let defs = tvv::all_props();
            let Some(def) = defs.iter().find(|d| d.id == args[2]) else {
                eprintln!("unknown property {}", args[2]);
                std::process::exit(2);
            };
            let out = engine::run_property(def, tier, seed, &verif_root);
            std::process::exit(out.exit_code);
        }
        "replay" => {
            if args.len() < 3 {
                usage();
            }
            engine::install_panic_hook();
            let defs = tvv::all_props();
            std::process::exit(engine::replay_file(&defs, &PathBuf::from(&args[2]), &verif_root));
        }
        "fuzz-replay" => {
            if args.len() < 4 {
                usage();
            }
            std::process::exit(tvv::fuzzing::replay(&args[2], &PathBuf::from(&args[3])));
        }
        "child" => {
            std::process::exit(tvv::props::child_main(&args[2..]));
        }
        _ => usage(),
    }
}
