//! Shared pieces of the ranking checks (C06, C12): a non-pruning exhaustive collector, the frozen
//! field-norm table (part of the on-disk contract) and an independent f32 BM25.
use tantivy::collector::{Collector, SegmentCollector};
use tantivy::{DocAddress, DocId, Score, SegmentOrdinal, SegmentReader};

/// Frozen copy of tantivy's 256-entry field-norm table (taken from src/fieldnorm/code.rs when the harness
/// was written; the table is an on-disk format constant).
pub const FROZEN_NORMS: [u32; 256] = [
    0, 1, 2, 3, 4, 5, 6, 7, 8, 9, 10, 11,
    12, 13, 14, 15, 16, 17, 18, 19, 20, 21, 22, 23,
    24, 25, 26, 27, 28, 29, 30, 31, 32, 33, 34, 35,
    36, 37, 38, 39, 40, 42, 44, 46, 48, 50, 52, 54,
    56, 60, 64, 68, 72, 76, 80, 84, 88, 96, 104, 112,
    120, 128, 136, 144, 152, 168, 184, 200, 216, 232, 248, 264,
    280, 312, 344, 376, 408, 440, 472, 504, 536, 600, 664, 728,
    792, 856, 920, 984, 1048, 1176, 1304, 1432, 1560, 1688, 1816, 1944,
    2072, 2328, 2584, 2840, 3096, 3352, 3608, 3864, 4120, 4632, 5144, 5656,
    6168, 6680, 7192, 7704, 8216, 9240, 10264, 11288, 12312, 13336, 14360, 15384,
    16408, 18456, 20504, 22552, 24600, 26648, 28696, 30744, 32792, 36888, 40984, 45080,
    49176, 53272, 57368, 61464, 65560, 73752, 81944, 90136, 98328, 106520, 114712, 122904,
    131096, 147480, 163864, 180248, 196632, 213016, 229400, 245784, 262168, 294936, 327704, 360472,
    393240, 426008, 458776, 491544, 524312, 589848, 655384, 720920, 786456, 851992, 917528, 983064,
    1048600, 1179672, 1310744, 1441816, 1572888, 1703960, 1835032, 1966104, 2097176, 2359320, 2621464, 2883608,
    3145752, 3407896, 3670040, 3932184, 4194328, 4718616, 5242904, 5767192, 6291480, 6815768, 7340056, 7864344,
    8388632, 9437208, 10485784, 11534360, 12582936, 13631512, 14680088, 15728664, 16777240, 18874392, 20971544, 23068696,
    25165848, 27263000, 29360152, 31457304, 33554456, 37748760, 41943064, 46137368, 50331672, 54525976, 58720280, 62914584,
    67108888, 75497496, 83886104, 92274712, 100663320, 109051928, 117440536, 125829144, 134217752, 150994968, 167772184, 184549400,
    201326616, 218103832, 234881048, 251658264, 268435480, 301989912, 335544344, 369098776, 402653208, 436207640, 469762072, 503316504,
    536870936, 603979800, 671088664, 738197528, 805306392, 872415256, 939524120, 1006632984, 1073741848, 1207959576, 1342177304, 1476395032,
    1610612760, 1744830488, 1879048216, 2013265944,
];
pub fn norm_id(len: u32) -> u8 {
    match FROZEN_NORMS.binary_search(&len) {
        Ok(i) => i as u8,
        Err(i) => (i - 1) as u8,
    }
}
pub fn quantised_len(len: u32) -> u32 {
    FROZEN_NORMS[norm_id(len) as usize]
}

pub const K1: f32 = 1.2;
pub const B: f32 = 0.75;
pub fn idf(doc_freq: u64, doc_count: u64) -> f32 {
    let x = ((doc_count - doc_freq) as f32 + 0.5) / (doc_freq as f32 + 0.5);
    (1.0 + x).ln()
}
/// BM25 of one (term, document) given searcher-wide statistics
pub fn bm25(idf_sum: f32, tf: f32, quantised_doc_len: u32, avg_len: f32) -> f32 {
    let norm = K1 * (1.0 - B + B * quantised_doc_len as f32 / avg_len);
    idf_sum * (1.0 + K1) * (tf / (tf + norm))
}

/// Collects every (score, address) through plain `collect` (never `for_each_pruning`).
pub struct AllScores;
pub struct AllScoresSeg(SegmentOrdinal, Vec<(Score, DocAddress)>);
impl Collector for AllScores {
    type Fruit = Vec<(Score, DocAddress)>;
    type Child = AllScoresSeg;
    fn for_segment(&self, ord: SegmentOrdinal, _r: &SegmentReader) -> tantivy::Result<AllScoresSeg> {
        Ok(AllScoresSeg(ord, vec![]))
    }
    fn requires_scoring(&self) -> bool {
        true
    }
    fn merge_fruits(&self, f: Vec<Vec<(Score, DocAddress)>>) -> tantivy::Result<Vec<(Score, DocAddress)>> {
        Ok(f.into_iter().flatten().collect())
    }
}
impl SegmentCollector for AllScoresSeg {
    type Fruit = Vec<(Score, DocAddress)>;
    fn collect(&mut self, doc: DocId, score: Score) {
        self.1.push((score, DocAddress::new(self.0, doc)));
    }
    fn harvest(self) -> Self::Fruit {
        self.1
    }
}
