#![no_main]
//! libFuzzer target for C09: bytes -> structured case (total decoder in tvv::props::c09::fuzz_one) -> the same oracle
//! as the property check.  Failures whose signature is listed open in KNOWN_FINDINGS.txt are tolerated.
use libfuzzer_sys::fuzz_target;

fuzz_target!(|data: &[u8]| {
    tvv::fuzzing::run_one("C09", data, tvv::props::c09::fuzz_one);
});
