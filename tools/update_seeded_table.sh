#!/usr/bin/env bash
# rewrites the table between the SEEDED-TABLE markers of DESIGN.md from seeded/*/meta.json
cd "$(dirname "$0")/.."
python3 - <<'PY'
import subprocess, re
t = subprocess.run(['python3', 'tools/seeded_table.py'], capture_output=True, text=True).stdout
s = open('DESIGN.md').read()
s = re.sub(r'<!-- SEEDED-TABLE-BEGIN -->.*<!-- SEEDED-TABLE-END -->', '<!-- SEEDED-TABLE-BEGIN -->\n' + t.replace('\\', '\\\\') + '<!-- SEEDED-TABLE-END -->', s, flags=re.S)
open('DESIGN.md', 'w').write(s)
PY
