#!/usr/bin/env bash
# tools/evalws.sh <patch.diff|-> <Cxx> <quick|thorough|--replay file> [repo-rev]
# Runs one check of /verif (HEAD; EVAL_WORKTREE=1: the working tree) against a private copy of /repo (HEAD or <repo-rev>) with
# <patch.diff> applied, so that /repo itself is never modified (equivalent to: git -C /repo apply patch; ./check ..;
# git -C /repo checkout -- .).  The private copy lives in /tmp/evalws (worktrees of /repo and a rsync'ed copy of /verif's
# harness); it is scratch and can be deleted at any time.
set -u
PATCH="$1"; [ "$PATCH" != "-" ] && PATCH="$(readlink -f "$PATCH")"; PID="$2"; MODE="$3"; shift 3
FILE=""; if [ "$MODE" = "--replay" ]; then FILE="$1"; shift; fi
REV="${1:-HEAD}"
EVW=/tmp/evalws${EVW_NAME:+-$EVW_NAME}
mkdir -p $EVW
git -C /repo worktree prune
if [ ! -d $EVW/repo/.git ] && [ ! -f $EVW/repo/.git ]; then git -C /repo worktree add --detach $EVW/repo HEAD >/dev/null 2>&1 || exit 2; fi
git -C $EVW/repo checkout -q -- . ; git -C $EVW/repo clean -fdq -e target; git -C $EVW/repo checkout -q --detach "$(git -C /repo rev-parse "$REV")" || exit 2
mkdir -p $EVW/verif
# /verif as committed (HEAD), or with EVAL_WORKTREE=1 the working tree as it is now; build output is kept
if [ -n "${EVAL_WORKTREE:-}" ]; then
  rsync -a --delete --exclude target --exclude .git --exclude 'replays/found' --exclude evidence /verif/ $EVW/verif/
else
  rm -rf $EVW/export; mkdir -p $EVW/export; git -C /verif archive HEAD | tar -x -C $EVW/export
  rsync -a --delete --exclude target --exclude 'replays/found' --exclude evidence $EVW/export/ $EVW/verif/; rm -rf $EVW/export
fi
mkdir -p $EVW/verif/evidence
sed -i "s|\"/repo|\"$EVW/repo|g" $EVW/verif/harness/Cargo.toml $EVW/verif/harness/fuzz/Cargo.toml
sed -i "s|cp /repo/Cargo.lock|cp $EVW/repo/Cargo.lock|" $EVW/verif/check
if [ "$PATCH" != "-" ]; then git -C $EVW/repo apply "$PATCH" || { echo "patch does not apply"; exit 2; }; fi
cd $EVW/verif
if [ -n "$FILE" ]; then VERIF_ROOT=$EVW/verif ./check "$PID" --replay "$FILE"; else VERIF_ROOT=$EVW/verif ./check "$PID" "$MODE"; fi
rc=$?
git -C $EVW/repo checkout -q -- .
exit $rc
