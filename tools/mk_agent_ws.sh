#!/usr/bin/env bash
# creates /tmp/w/<id>/{verif,repo}: worktrees of /verif and /repo for a module author
set -e
ID="$1"
W=/tmp/w/$ID
mkdir -p /tmp/w
rm -rf "$W"; mkdir -p "$W"
git -C /repo worktree prune; git -C /verif worktree prune
git -C /repo worktree add --detach "$W/repo" HEAD >/dev/null 2>&1
git -C /verif worktree add --detach "$W/verif" HEAD >/dev/null 2>&1
sed -i "s|/repo|$W/repo|g" "$W/verif/harness/Cargo.toml"
sed -i "s|cp /repo/Cargo.lock|cp $W/repo/Cargo.lock|" "$W/verif/check"
cp /repo/Cargo.lock "$W/verif/harness/Cargo.lock"
echo "$W"
