#!/usr/bin/env bash
# tools/seedq.sh <workspace-name|-> <"cXX x [--check-only]">...   runs seed evaluations one after the other in the given
# evaluation workspace; evaluations of different invocations on the same workspace are serialised by a lock file
WS="$1"; shift
[ "$WS" = "-" ] && WS=""
export EVW_NAME="$WS"
for job in "$@"; do
  flock "/tmp/seedq-${WS:-default}.lock" /verif/tools/seed_eval.sh $job
done
