#!/usr/bin/env python3
"""Regenerates /verif/MANIFEST.json from the table below and validates it against the schema."""
import json, os, subprocess, sys
ROOT = os.path.dirname(os.path.dirname(os.path.abspath(__file__)))
props = [json.loads(l) for l in open(os.path.join(ROOT, 'properties.jsonl'))]

# id -> (category, technique, level text, level note, design_ref)
CLAIMS = {
 "C01": ("fault_enumeration",
         "crash-image enumeration over SimDir operation logs of generated histories (proptest) against a recovery predicate and the sequential model; plus system-call traces (strace) of generated Directory programs and indexing histories on the real MmapDirectory checked against the durability contract the enumeration assumes",
         "Every storage-operation boundary (thorough) / every boundary next to a metadata, updater or merge operation plus a stride (quick) of generated histories is combined with the persistence outcomes the property quantifies over (MIN, MAX, renames-only, unlinks-only, creates-only, ordered prefixes, independent random subsets; un-synced bytes lost/empty/truncated/full) and each image must open, expose exactly one acceptable commit, pass checksums, equal the model and accept writer+commit+gc.",
         "durability semantics are a model of the Directory contract (bytes durable after terminate, directory entries after sync_directory, atomic_write = synced temp file + rename); that MmapDirectory implements it is checked at the system-call level by sub mmap_syscalls on generated programs; not an executed power cut; crash points are storage-operation boundaries; schedules of background threads are those the OS produced in the single run of each history",
         "DESIGN.md §3 C01"),
 "C02": ("exploration",
         "model-based stateful testing: generated operation histories vs a pure sequential model (proptest), plus concurrent producers with per-producer sequential replay (disjoint keys) and a linearizability check on a logical clock (shared keys)",
         "Generated histories over the full writer API and configuration space are checked against a sequential model after every commit / abort / rollback / merge / reopen, including opstamp laws; concurrent producers are checked by per-producer sequential replay and opstamp-range disjointness; histories include a commit held inside its metadata write while a merge ends and a delete issued while a commit_future is still queued (sub late_delete).",
         "thread interleavings are sampled (steered by the flush-every-N and pause-point hooks), never enumerated; document shapes are small (uid, group, 0-4 words, a number)",
         "DESIGN.md §3 C02"),
 "C03": ("exploration",
         "differential testing of generated query trees on generated corpora against a naive evaluator, across collectors and across segmentations (metamorphic re-check after merging)",
         "Generated corpora (boundary posting-list lengths, several size classes, segmentations, deletes, sorted or not) and generated query trees over every listed query type are evaluated by tantivy through DocSetCollector, Count, Query::count, TopDocs, tuple/Multi collectors and FilterCollector and compared with an independent evaluator over the model documents, again after merging all segments.",
         "ASCII word text; reference semantics of fuzzy/regex use independent implementations (own edit distance, the regex crate) on a fixed small vocabulary; JSON, facet, bool and bytes fields are covered by the separate sub typed_fields with its own small model (typed JSON terms of the indexed numeric type only)",
         "DESIGN.md §3 C03"),
 "C04": ("translation_validation",
         "per-merge translation validation: canonical dump of the merged segment vs the dumps of its sources on generated indexes (proptest), plus gated merge-thread schedules and histories under an always-firing merge policy (committed and uncommitted segments) judged against the sequential model",
         "Every generated merge (choice and order of sources, deletes, stacked or re-compressed stores, sorted or unsorted) is validated as a translation of its inputs: per document stored fields, fast values, field norms, term frequencies and positions, and per term doc_freq; merges held at a generated storage operation while deletes are committed, rollbacks, delete-all and gc run are judged against the sequential model and the no-orphan predicate.",
         "the dump reads through tantivy's public readers (SegmentReader, store, fast fields, postings); a defect common to reader and merger that preserves dump equality is invisible; schedules: merge thread pre-empted at storage operations only",
         "DESIGN.md §3 C04"),
 "C05": ("exploration",
         "concurrent reader/writer histories with bounded holds at storage operations, fingerprints judged against the commit models on a logical clock (proptest)",
         "A writer thread executes a generated history while 1-3 reader threads (same Index and a second Index::open) reload and fingerprint searchers and keep some alive; every observation must equal exactly one commit's model within the logical-time window, non-decreasing per reader, and held searchers never change (also after gc and writer shutdown).",
         "schedules are sampled; the only steering is bounded holds of a reader at its n-th segment-file open (SimDir gates); the OnCommitWithDelay file watcher is not exercised",
         "DESIGN.md §3 C05"),
 "C06": ("exploration",
         "differential testing of TopDocs (all key kinds, K, offsets, executors) against the exhaustive non-pruning result list of the same searcher with keys from the model documents (proptest)",
         "Generated tie-heavy corpora and scoring queries that take the block-WAND union/intersection paths and generic boolean trees are ranked with every key kind, K and offset; the result must be exactly the slice [O, O+K) of the complete list sorted by (key, address) - bit-for-bit for exactly comparable keys, by a validity predicate for multi-clause float sums - and paging must enumerate every match once.",
         "complete list obtained through Collector::collect on the same searcher (no dynamic pruning); tolerance 4e-6 per clause for float sums",
         "DESIGN.md §3 C06"),
 "C07": ("exploration",
         "full read-back of the inverted index (dictionary order, doc_freq, postings, tf, positions, field norms, token counts) against a model built with the documented tokenisation/position rules; sequential, seek-program and block-API reads (proptest)",
         "Generated document collections shaped to hit posting lists of length 1/127/128/129/256/257/20000+, sparse doc-id gaps, term frequencies and position counts over 128, terms up to 65530 bytes with long shared prefixes, all record options, fieldnorms on/off, three tokenizers, multi-valued fields with position gaps, and typed fields (u64/i64/f64/date/bool/bytes/ip/facet/JSON) are indexed and every dictionary entry and posting is compared with the model.",
         "one segment per case; Term keys of typed and JSON fields come from tantivy's Term builders (order and postings are still checked against the model)",
         "DESIGN.md §3 C07"),
 "C08": ("exploration",
         "round-trip and merge property testing of columnar data against a Vec-of-rows model, directly on the columnar crate and through tantivy fast fields (proptest)",
         "Generated tables (every column type and cardinality, row counts around the 64/512/1024/5120/65536 boundaries, value profiles that select each codec, extremes) are written, read back bit-for-bit in insertion order, checked for min/max bounds, cardinality and index consistency, value-range lookups vs brute force, sorted bijective dictionaries, and merged by stacking and by generated permutations with alive bitsets (also merged twice); the same through schema fast fields incl. JSON sub-paths and date precision before and after IndexWriter::merge with deletes.",
         "which numeric column type the writer picks is not asserted; large row counts (>= 65535) are generated rarely",
         "DESIGN.md §3 C08"),
 "C09": ("exploration",
         "round-trip property testing of the document store (StoreWriter/StoreReader directly and through IndexWriter/Searcher) against an independent document model (proptest)",
         "Generated documents of every value type (nested JSON to depth 8, multi-valued fields, huge values, pre-tokenised text, non-stored fields) are written under generated compressor / block size / compression-thread settings, stacked or re-compressed, merged (incl. codec changes and sorted indexes) and read back through Searcher::doc, StoreReader::get, iter and iter(alive) in generated access orders and cache sizes; every value must equal the model.",
         "values are compared with an independent model (never through tantivy's own serialisation or PartialEq); object key order and NaN payloads are not demanded",
         "DESIGN.md §3 C09"),
 "C10": ("exploration",
         "quiescence (no-orphan / nothing-missing) predicate over generated histories on SimDir and MmapDirectory, over recovered crash images, and over generated gated schedules of GC against workers, merge threads, readers and a dropped writer's updater (proptest + SimDir gates)",
         "After every commit under NoMergePolicy and at the end of every generated history (merges joined, gc run) the directory listing must equal meta.json + committed segment files and .managed.json must match; crash images of generated histories are recovered, committed to, collected and checked for orphans.",
         "outside the six gated race families (sub races) GC/worker/merge interleavings are those the OS schedule produces in generated histories; transient survivors are re-collected up to 5 times before being reported",
         "DESIGN.md §3 C10"),
 "C11": ("fault_enumeration",
         "fault injection at generated storage-operation positions x mode x kind x thread in child processes, judged against the sequential model and the durable crash image (proptest + process isolation)",
         "For generated histories a fault-free dry run counts the storage operations; generated positions (fraction of the count) x {once, permanent} x kind filter x thread filter are injected in a child process; every Ok commit's minimal durable image must open and equal its model, after the run the index equals the last successful (or the failed-but-published) commit, a new writer continues, the failed transaction issued again on a new writer goes through, and (without a merging policy) after one more commit and collection on healthy storage nothing is left of the failed work - every leftover file would at least have to be managed still; abort, panic or a stalled child is a violation.",
         "faults are io::Errors returned by Directory operations of SimDir; positions are sampled (24-40 per history), not all k; hang = no output and no CPU progress for 20 s",
         "DESIGN.md §3 C11"),
 "C12": ("exploration",
         "independent f32 BM25 evaluation from model-derived statistics, explain/score agreement, collector/K invariance and segmentation invariance (metamorphic) on generated corpora (proptest)",
         "Generated corpora with field lengths on the edges of the 256 norm buckets and generated scoring queries (term, phrase, boolean, nested boost, const, dismax) are scored by tantivy and by an independent BM25 over statistics computed from the model documents and a frozen norm table; explain must equal the collected score, single-clause scores are bit-identical across collectors / K and, without deletes, across a merge into one segment.",
         "relative tolerance 1e-5 per scoring clause for sums; boosted clauses compared with tolerance (different but legitimate rounding of the product in explain); explain of non-matching documents is not exercised",
         "DESIGN.md §3 C12"),
 "C13": ("exploration",
         "call-program generation against an advance()-only reference sequence for every scorer kind and generated nestings (proptest), exhaustive (position, target) pairs on small corpora, bytes-to-program decoder for fuzzing",
         "For generated corpora (posting lists crossing 128, windows 1024/4096, > 4096 docs) and 77 catalogue scorer shapes plus generated nestings, with scoring on and off, generated programs over {advance, seek(doc+d), seek(TERMINATED), fill_buffer, fill_bitset_block, seek_danger chains, counts, score reads} must observe the reference [(doc, score)] sequence of a fresh scorer driven by advance(); all documented preconditions of src/docset.rs are respected by the generator.",
         "scores of sums compared within 4 ulp per clause; the precondition set is the one documented in src/docset.rs",
         "DESIGN.md §3 C13"),
 "C14": ("exploration",
         "direct reference evaluator over the model documents + metamorphic partition/merge/serialisation independence of aggregation results on generated corpora and request trees (proptest)",
         "Generated corpora (missing and multi-valued fields, negative and fractional values, values on bucket boundaries, up to 200 terms, deletes) and generated request trees of depth <= 3 over all 16 aggregation variants with a filtering query are evaluated (1) against a rustdoc-based direct evaluator and (2) metamorphically: one segment vs 1-6 segments vs 1-4 separate indexes whose intermediate results are merged with merge_fruits in generated orders and shapes with postcard round trips; counts and buckets exactly, float sums within 1e-9, sketches within their documented bounds; a generated bucket limit must error or return the complete result.",
         "reference semantics only from the rustdoc of src/aggregation; terms aggregations compared exactly only when segment_size >= cardinality; percentiles / cardinality by error bound",
         "DESIGN.md §3 C14"),
 "C15": ("exploration",
         "model-based testing of the dictionaries (sstable with all value types and block lengths, FST term dictionary, columnar dictionaries) against a sorted-vector / BTreeMap model incl. automaton streams, merges and order enforcement (proptest); bytes-to-case decoder for fuzzing",
         "Generated key sets (empty key, 40 KB keys, long shared prefixes, 0x00/0xFF runs, sizes crossing block / 128-entry index / layer boundaries) x value types x block lengths are built and every lookup, ordinal conversion, bounded range with limit, prefix range and automaton stream (prefix, Levenshtein 0-2 +- transpositions, regex) is compared with the model (automaton streams against the same automaton run over every model key); merges must be the sorted union with correct ordinal maps; a key sequence with one order violation must be rejected by every builder.",
         "the automaton implementation itself is shared between tantivy and the oracle (differential on pruning/streaming only); the quickwit (sstable) term dictionary of tantivy proper is exercised only when the harness is built with --features quickwit",
         "DESIGN.md §3 C15"),
 "C16": ("exploration",
         "totality testing of both parsers on generated strings (in-process and in resource-limited child processes) with strict/lenient differential, plus grammar-based generation of well-formed queries checked against a naive evaluator (proptest); bytes entry point for fuzzing",
         "Generated strings (random text, grammar-token soup, mutations of valid queries, unbalanced quotes/brackets, long inputs, deep nesting in a child process) must make tantivy_query_grammar and QueryParser (4 configurations) return; strict success implies lenient success with the same AST and no errors (known disagreement classes keyed by the lenient message); abstract queries from the documented unambiguous grammar subset are printed with meaning-preserving variation, parsed and executed, and must match exactly the documents a naive evaluation of the abstract query selects, for every typed literal.",
         "the well-formed subset excludes the locally ambiguous mixes the grammar's own comments resolve heuristically; nesting beyond depth 96 only in a child process (stack overflow is a known finding)",
         "DESIGN.md §3 C16"),
 "C17": ("exploration",
         "invariant + metamorphic testing: generated histories run on a sorted and on an unsorted index; per-segment sort-order invariant, sequential model, per-uid record equality (proptest)",
         "For every sort field type and direction, generated histories with reordered same-transaction deletes, merges of generated subsets and rollbacks are executed on a sorted index and identically on an unsorted one; after every commit and merge each segment's sort key (from the model) must be monotone with value-less documents first/last, the live set must equal the model and every document's canonical record (stored, fast, norms, postings) must equal the unsorted index's record of the same uid.",
         "records are read through tantivy's public readers on both sides (a defect common to sorted and unsorted paths is invisible here; C07/C08/C09 cover the readers against models)",
         "DESIGN.md §3 C17"),
 "C18": ("exploration",
         "model-based lifecycle testing of the writer lock (two-state free/held model) over generated call sequences on Ram/Mmap/Sim directories, thread races and competing child processes (proptest)",
         "Generated sequences of writer creations (valid and invalid), second handles, rollbacks, drops, wait_merging_threads, worker kills by injected I/O errors and creation races from 2-8 threads, plus two child processes competing on one MmapDirectory, are judged by a free/held model: creation succeeds iff free, a held lock rejects every attempt without disturbing the holder, and the lock follows the writer's lifetime.",
         "races are those the OS produces among 2-8 threads / 3 processes; invalid options accepted by tantivy are counted, not judged",
         "DESIGN.md §3 C18"),
 "C19": ("exploration",
         "invariant checking over generated (analyser, UTF-8 text) pairs and generated snippets with an independent HTML scanner (proptest); bytes-to-case decoder for fuzzing",
         "Every built-in tokenizer with generated filter chains is run over generated Unicode texts (multi-byte, combining marks, emoji/ZWJ, case mappings that change byte length, controls, megabyte tokens): offsets in bounds, on char boundaries, ordered, positions monotone, un-normalised tokens equal their slice; generated snippets must never panic, stay substrings within max_num_chars, have sorted disjoint in-range highlights that re-analyse to query terms, and an HTML rendering that escapes everything outside the tags.",
         "whether a token was normalised is decided by an independent per-token rule (frozen list of Unicode blocks touched by ASCII folding, char-wise lower-casing identity); regex tokenizer texts for non-simple patterns are capped at 2 KiB (quadratic tokenisation)",
         "DESIGN.md §3 C19"),
 "C20": ("fault_enumeration",
         "generated write patterns + enumerated/generated file damage vs Index::validate_checksum (proptest, independent crc32)",
         "Every damage class named by the property (single bit, byte substitution, multi-byte, body truncation, whole-file truncation, insertion, extension, unsupported footer versions) is generated against generated small indexes; small files get every single bit flipped and every body truncation length. Exploration of the index/file space, enumeration of the damage positions.",
         "RamDirectory storage; CRC collisions are recomputed independently and skipped (counted); indexes are small (1-4 segments, <= 8 docs per commit)",
         "DESIGN.md §3 C20"),
}
NOT_BUILT = "check not built yet in this snapshot of /verif (planned, see DESIGN.md §3)"

def hooks():
    commits = []
    p = os.path.join(ROOT, 'HOOK_COMMITS.txt')
    if os.path.exists(p):
        commits = [l.split()[0] for l in open(p) if l.strip() and not l.startswith('#')]
    return {
        "guard": "cargo feature `verif-hooks` of the tantivy crate (off by default; all hook code is behind #[cfg(feature = \"verif-hooks\")])",
        "enable": "the harness crate depends on tantivy by path (/repo) with features = [\"verif-hooks\"]",
        "baseline_off_cmd": "cd /repo && cargo test --workspace --no-fail-fast --offline",
        "source_commits": commits,
        "add_only": True,
    }

checks = []
na = []
for p in props:
    pid = p['id']
    if pid in CLAIMS:
        cat, tech, text, note, ref = CLAIMS[pid]
        checks.append({
            "property_id": pid,
            "quick_cmd": f"./check {pid} quick",
            "thorough_cmd": f"./check {pid} thorough",
            "evidence_file": f"/verif/evidence/{pid}.json",
            "replay_cmd_template": f"./check {pid} --replay {{path}}",
            "engine": "tvv",
            "level_claimed": {"category": cat, "text": text, "design_ref": ref},
            "level_note": note,
            "technique": tech,
        })
    else:
        na.append({"property_id": pid, "reason": NOT_BUILT})
m = {
 "version": 1,
 "setup_cmd": "./check --build",
 "hooks": hooks(),
 "engines": [{"name": "tvv", "path": "harness", "serves_properties": sorted(CLAIMS),
              "kind_free_text": "Rust harness (proptest 1.11): sharded generators with seeds derived from VERIF_SEED, explicit oracle per sub-check, shrinking to JSON replay files under replays/found, known-finding handling (KNOWN_FINDINGS.txt), evidence writer"}],
 "checks": checks,
 "not_applicable": na,
 "notes": "./check <id> quick|thorough rebuilds the harness against /repo's current working tree (path dependencies) before running. Exit 0 = held, 1 = VIOLATION line, 2 = inconclusive/infrastructure. See DESIGN.md.",
}
out = os.path.join(ROOT, 'MANIFEST.json')
json.dump(m, open(out, 'w'), indent=1)
try:
    import jsonschema
    jsonschema.validate(m, json.load(open('/root/.vp/MANIFEST.schema.json')))
    print("MANIFEST.json valid;", len(checks), "checks,", len(na), "not applicable")
except ImportError:
    print("jsonschema not importable; run with python3-vt")
