#!/usr/bin/env bash
# runs every claimed check of MANIFEST.json in the given tier and prints a summary
TIER="${1:-quick}"
cd "$(dirname "$0")/.."
./check --build || exit 2
mkdir -p target/runlogs
for id in $(python3 -c "import json; print(' '.join(c['property_id'] for c in json.load(open('MANIFEST.json'))['checks']))"); do
  s=$(date +%s)
  ./check $id $TIER > target/runlogs/$id-$TIER.log 2>&1
  rc=$?
  e=$(( $(date +%s) - s ))
  echo "$id rc=$rc ${e}s $(grep -E '^(OK|VIOLATION|INCONCLUSIVE)' target/runlogs/$id-$TIER.log | head -2 | cut -c1-150 | tr '\n' ' ')"
done
