#!/usr/bin/env bash
# tools/seed_eval.sh <cXX> <a|b> : confirms a seeded regression in its scratch worktree (/tmp/seed/<id>/repo), then runs the
# property's quick check against it in /repo and records everything under /verif/seeded/<id>-<x>/
set -u
ID="$1"; X="$2"; PID=$(echo "$ID" | tr c C)
S=/tmp/seed/$ID; W=$S/repo; OUT=/verif/seeded/$ID-$X
mkdir -p "$OUT"
cp "$S/$X/patch.diff" "$OUT/patch.diff"; cp "$S/$X/demo.rs" "$OUT/demo.rs"; cp "$S/$X/notes.txt" "$OUT/notes.txt" 2>/dev/null
T=seeded_${ID}_$X
cd "$W" || exit 2
git checkout -q -- . ; cp "$S/$X/demo.rs" "tests/$T.rs"
export CARGO_NET_OFFLINE=true
export CARGO_TARGET_DIR=/tmp/seed/target
export CARGO_INCREMENTAL=0
timeout 3000 cargo test --offline --test "$T" > "$OUT/demo-without.log" 2>&1; r0=$?
git apply "$S/$X/patch.diff" || { echo "patch does not apply"; exit 2; }
timeout 3000 cargo test --offline --test "$T" > "$OUT/demo-with.log" 2>&1; r1=$?
timeout 3000 cargo nextest run --workspace --no-fail-fast --offline --test-threads 8 -E 'not binary(/seeded/)' > "$OUT/suite-with.log" 2>&1; r2=$?
suite=$(grep -E "Summary" "$OUT/suite-with.log" | tail -1 | sed 's/\x1b\[[0-9;]*m//g')
git checkout -q -- .
# the framework's check against the change: run in a private copy (/tmp/evalws: worktrees of /verif HEAD and /repo HEAD,
# harness wired to that repo copy) so that /repo itself is never modified
EVW=/tmp/evalws
git -C $EVW/verif checkout -q -- . ; git -C $EVW/verif checkout -q --detach "$(git -C /verif rev-parse HEAD)"
git -C $EVW/repo checkout -q -- . ; git -C $EVW/repo checkout -q --detach "$(git -C /repo rev-parse HEAD)"
sed -i "s|/repo|$EVW/repo|g" $EVW/verif/harness/Cargo.toml; sed -i "s|cp /repo/Cargo.lock|cp $EVW/repo/Cargo.lock|" $EVW/verif/check
git -C $EVW/repo apply "$S/$X/patch.diff" || { echo "patch does not apply to the repo HEAD"; exit 2; }
s=$(date +%s)
( cd $EVW/verif && VERIF_ROOT=$EVW/verif timeout 2400 ./check "$PID" quick ) > "$OUT/check-quick.log" 2>&1; rc=$?
e=$(( $(date +%s) - s ))
git -C $EVW/repo checkout -q -- .
sig=$(grep -m1 "signature=" "$OUT/check-quick.log" | sed 's/.*signature=//' | cut -c1-120)
python3 - "$OUT" "$PID" "$ID" "$X" "$r0" "$r1" "$r2" "$suite" "$rc" "$e" "$sig" <<'PY'
import json, sys
out, pid, i, x, r0, r1, r2, suite, rc, e, sig = sys.argv[1:]
notes = open(out + '/notes.txt').read() if __import__('os').path.exists(out + '/notes.txt') else ''
meta = {
 "property": pid, "id": f"{i}-{x}",
 "needs_to_manifest": notes.strip()[:1500],
 "confirmed": {
   "demo_without_change": "pass" if r0 == '0' else f"FAIL(rc={r0})",
   "demo_with_change": "fail" if r1 != '0' else "PASS(unexpected)",
   "pinned_suite_with_change": suite.strip() or f"rc={r2}",
   "commands": [f"cargo test --offline --test seeded_{i}_{x} (without / with the patch, in a scratch worktree)",
                "cargo nextest run --workspace --no-fail-fast --offline --test-threads 8 -E 'not binary(/seeded/)' (with the patch)",
                f"patch applied to a worktree of /repo HEAD and ./check {pid} quick run with the harness wired to that worktree (same as: git -C /repo apply patch.diff; ./check {pid} quick; git -C /repo checkout -- .)"],
 },
 "framework": {"check": f"./check {pid} quick", "exit_code": int(rc), "detected": rc == '1', "seconds": int(e), "first_signature": sig},
}
# keep the verdicts of earlier versions of the check (a change missed first and caught after strengthening stays visible)
try:
    old = json.load(open(out + '/meta.json'))
    meta["earlier_runs"] = old.get("earlier_runs", []) + [old["framework"]]
except Exception:
    pass
json.dump(meta, open(out + '/meta.json', 'w'), indent=1)
print(f"{i}-{x}: demo without={meta['confirmed']['demo_without_change']} with={meta['confirmed']['demo_with_change']} suite=[{suite.strip()}] check rc={rc} ({e}s) sig={sig}")
PY
