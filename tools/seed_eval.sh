#!/usr/bin/env bash
# tools/seed_eval.sh <cXX> <a|b> [--check-only]
# Confirms an independently seeded regression and runs the property's quick check against it; records everything under
# /verif/seeded/<id>-<x>/ (patch.diff, demo.rs, notes.txt come from the seeding agent's scratch dir /tmp/seed/<id>/<x>/ the
# first time; afterwards the copies under /verif/seeded are authoritative).
#   1. scratch worktree of /repo HEAD (/tmp/seedws/repo): the demonstration passes without the patch, fails with it;
#   2. the pinned suite passes with the patch (nextest, same selection as the baseline);
#   3. ./check <Cxx> quick against a private copy of /repo HEAD + patch (tools/evalws.sh; /repo itself is never modified).
# --check-only repeats step 3 only (after a check was strengthened) and keeps the earlier verdicts in meta.json.
set -u
ID="$1"; X="$2"; ONLY="${3:-}"; PID=$(echo "$ID" | tr c C)
S=/tmp/seed/$ID/$X; OUT=/verif/seeded/$ID-$X
mkdir -p "$OUT"
if [ ! -f "$OUT/patch.diff" ]; then
  cp "$S/patch.diff" "$OUT/patch.diff" || exit 2; cp "$S/demo.rs" "$OUT/demo.rs" || exit 2; cp "$S/notes.txt" "$OUT/notes.txt" 2>/dev/null
fi
export CARGO_NET_OFFLINE=true CARGO_INCREMENTAL=0
r0=skip; r1=skip; r2=skip; suite=""
if [ "$ONLY" != "--check-only" ]; then
  SW=/tmp/seedws${EVW_NAME:+-$EVW_NAME}; W=$SW/repo; mkdir -p $SW
  git -C /repo worktree prune
  [ -e $W/.git ] || git -C /repo worktree add --detach $W HEAD >/dev/null 2>&1 || exit 2
  git -C $W checkout -q -- . ; git -C $W clean -fdq; git -C $W checkout -q --detach "$(git -C /repo rev-parse HEAD)"
  T=seeded_${ID}_$X
  cd $W || exit 2
  cp "$OUT/demo.rs" "tests/$T.rs"
  export CARGO_TARGET_DIR=$SW/target
  timeout 3000 cargo test --offline --test "$T" > "$OUT/demo-without.log" 2>&1; r0=$?
  git apply "$OUT/patch.diff" || { echo "patch does not apply to /repo HEAD"; exit 2; }
  timeout 3000 cargo test --offline --test "$T" > "$OUT/demo-with.log" 2>&1; r1=$?
  timeout 3000 cargo nextest run --workspace --no-fail-fast --offline --test-threads 8 -E 'not binary(/seeded/)' > "$OUT/suite-with.log" 2>&1; r2=$?
  suite=$(grep -E "Summary" "$OUT/suite-with.log" | tail -1 | sed 's/\x1b\[[0-9;]*m//g')
  # keep the log small: summary + failures only
  grep -E "Summary|FAIL|SIGABRT|error\[" "$OUT/suite-with.log" | sed 's/\x1b\[[0-9;]*m//g' | head -60 > "$OUT/suite-with.log.tmp"; mv "$OUT/suite-with.log.tmp" "$OUT/suite-with.log"
  for f in demo-without demo-with; do tail -n 40 "$OUT/$f.log" > "$OUT/$f.log.tmp"; mv "$OUT/$f.log.tmp" "$OUT/$f.log"; done
  git checkout -q -- . ; rm -f "tests/$T.rs"
  unset CARGO_TARGET_DIR
fi
s=$(date +%s)
( cd /verif && timeout 2400 tools/evalws.sh "$OUT/patch.diff" "$PID" quick ) > "$OUT/check-quick.log" 2>&1; rc=$?
e=$(( $(date +%s) - s ))
sig=$(grep -m1 "signature=" "$OUT/check-quick.log" | sed 's/.*signature=//' | cut -c1-120)
sed -i 's|/tmp/evalws/verif/|/verif/|g' "$OUT/check-quick.log"
python3 - "$OUT" "$PID" "$ID" "$X" "$r0" "$r1" "$r2" "$suite" "$rc" "$e" "$sig" "$(git -C /repo rev-parse --short HEAD)" "$(git -C /verif rev-parse --short HEAD)" <<'PY'
import json, sys, os
out, pid, i, x, r0, r1, r2, suite, rc, e, sig, repo_head, verif_head = sys.argv[1:]
notes = open(out + '/notes.txt').read() if os.path.exists(out + '/notes.txt') else ''
try:
    old = json.load(open(out + '/meta.json'))
except Exception:
    old = None
fw = {"check": f"./check {pid} quick", "exit_code": int(rc), "detected": rc == '1', "seconds": int(e), "first_signature": sig, "verif_commit": verif_head, "repo_commit": repo_head}
if r0 == 'skip' and old:
    meta = old
    meta["earlier_runs"] = old.get("earlier_runs", []) + [old["framework"]]
    meta["framework"] = fw
else:
    meta = {
     "property": pid, "id": f"{i}-{x}",
     "needs_to_manifest": notes.strip()[:1500],
     "confirmed": {
       "demo_without_change": "pass" if r0 == '0' else f"FAIL(rc={r0})",
       "demo_with_change": "fail" if r1 != '0' else "PASS(unexpected)",
       "pinned_suite_with_change": suite.strip() or f"rc={r2}",
       "repo_commit": repo_head,
       "commands": [f"cargo test --offline --test seeded_{i}_{x} (without / with the patch, in a scratch worktree of /repo HEAD)",
                    "cargo nextest run --workspace --no-fail-fast --offline --test-threads 8 -E 'not binary(/seeded/)' (with the patch)",
                    f"tools/evalws.sh seeded/{i}-{x}/patch.diff {pid} quick  (= git -C /repo apply patch.diff; ./check {pid} quick; git -C /repo checkout -- . , run on a private copy of /repo)"],
     },
     "framework": fw,
    }
    if old:
        meta["earlier_runs"] = old.get("earlier_runs", []) + [old["framework"]]
json.dump(meta, open(out + '/meta.json', 'w'), indent=1)
c = meta['confirmed']
print(f"{i}-{x}: demo without={c['demo_without_change']} with={c['demo_with_change']} suite=[{c['pinned_suite_with_change']}] check rc={rc} ({e}s) sig={sig}")
PY
