#!/usr/bin/env python3
"""Greedy delta-debugging of a replay file: removes elements of the list at case.<key> while the replay still
fails with the same signature.  usage: ddmin.py <replay.json> <list key, e.g. ops> [signature]"""
import json, subprocess, sys, tempfile, os
path, key = sys.argv[1], sys.argv[2]
d = json.load(open(path))
want = sys.argv[3] if len(sys.argv) > 3 else d.get('signature')
def fails(case):
    dd = dict(d); dd['case'] = case
    with tempfile.NamedTemporaryFile('w', suffix='.json', delete=False) as f:
        json.dump(dd, f); name = f.name
    hit = False
    for _ in range(int(os.environ.get('DDMIN_TRIES', '1'))):   # schedule-dependent failures: several attempts
        try:
            out = subprocess.run(['/verif/target/release/tvv', 'replay', name], capture_output=True, text=True, timeout=120).stdout
        except subprocess.TimeoutExpired:
            out = ''
        if ('signature=' + want) in out:
            hit = True
            break
    os.unlink(name)
    return hit
case = d['case']
lst = case[key]
assert fails(case), "does not fail initially"
n = 2
while len(lst) >= 1:
    chunk = max(1, len(lst) // n)
    removed = False
    i = 0
    while i < len(lst):
        cand = lst[:i] + lst[i + chunk:]
        c2 = dict(case); c2[key] = cand
        if fails(c2):
            lst = cand; case = c2; removed = True
        else:
            i += chunk
    if not removed:
        if chunk == 1: break
        n *= 2
    print(len(lst), file=sys.stderr)
d['case'] = case
out = path.replace('.json', '.min.json')
json.dump(d, open(out, 'w'), indent=1)
print(out, json.dumps(case))
