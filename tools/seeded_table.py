#!/usr/bin/env python3
"""Prints a markdown table of /verif/seeded/*/meta.json (for DESIGN.md §11)."""
import json, glob, os
rows = []
for m in sorted(glob.glob('/verif/seeded/*/meta.json')):
    d = json.load(open(m))
    c = d['confirmed']; f = d['framework']
    first = d['needs_to_manifest'].split('\n')[0][:150].replace('|', '/')
    rows.append(f"| {d['id']} | {d['property']} | {first} | {c['demo_without_change']}/{c['demo_with_change']} | {c['pinned_suite_with_change'][:60]} | {'**caught**' if f['detected'] else 'MISSED'} ({f['seconds']} s) | `{f['first_signature'][:60]}` |")
print("| id | property | change (first line of notes) | demo without/with | pinned suite with change | ./check quick | first signature |")
print("|---|---|---|---|---|---|---|")
print('\n'.join(rows))
