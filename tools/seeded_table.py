#!/usr/bin/env python3
"""Prints a markdown table of /verif/seeded/*/meta.json (for DESIGN.md §11)."""
import json, glob, re
rows = []
caught = missed = superseded = 0
for m in sorted(glob.glob('/verif/seeded/*/meta.json')):
    d = json.load(open(m))
    c = d['confirmed']; f = d['framework']
    first = d['needs_to_manifest'].split('\n')[0][:170].replace('|', '/')
    first = re.sub(r'^(C\d\d\s*[/-]*\s*)?[Cc]hange [a-d]\s*[-:(]*\s*', '', first).strip()
    suite = re.sub(r'Summary \[\s*[\d.]+s\]\s*', '', c['pinned_suite_with_change'])[:48]
    earlier = d.get('earlier_runs', [])
    hist = ''
    if earlier:
        hist = ' (earlier: ' + ', '.join('caught' if e.get('detected') else 'missed' for e in earlier) + ')'
    if d.get('status') == 'superseded':
        verdict = 'superseded, see note'
        superseded += 1
    elif f['detected']:
        verdict = '**caught**'
        caught += 1
    else:
        verdict = 'MISSED'
        missed += 1
    rows.append(f"| {d['id']} | {first} | {c['demo_without_change']}/{c['demo_with_change']} | {suite} | {verdict} ({f['seconds']} s){hist} | `{f['first_signature'][:70]}` |")
print("| id | change (first line of the seeding agent's notes) | demo without/with | pinned suite with change | `./check <id> quick` | first signature |")
print("|---|---|---|---|---|---|")
print('\n'.join(rows))
print(f"\ncaught {caught}, missed {missed}, superseded {superseded} of {len(rows)}")
